"""C05 - ephemeral listeners never hold up or alter the synchronized stream."""

from world import oracles
from world.gen import Profile
from world.mq import MS
from .c01 import log_probes, feature_probes
from .mqspec import MQSpec


def c05_profile(tier, **kw):
    base = dict(shapes=('chain', 'tee', 'tee_rejoin', 'join', 'eph_rejoin'), faults=('kill_side', 'stall_side'),
                fault_free_pct=40, required='always', skip=False, src_skip=False, skip_on_rejoin=False,
                lat_max_ms=20, knob_variation=False, max_frames=25, max_proc_ms=100, ephemeral=2,
                settle_ns=2500 * MS, t_end_s=400, max_relays=2, staggered_start=False, low_latency=False)
    base.update(kw)
    return Profile('c05', **base)


class Spec(MQSpec):
    prop = 'C05'
    level = 'exploration'
    keep_backbone = True
    protected_keys = ('outputs_required',)

    def __init__(self, tier='quick'):
        super().__init__(tier)
        self.profiles = [(c05_profile(tier), 1)]

    def generate(self, ch, prof):
        sc = super().generate(ch, prof)
        sc['max_steps'] = 400_000
        return sc

    def budget(self, tier):
        return (2000, 100) if tier == 'quick' else (60_000, 1500)

    def oracle(self, world):
        return oracles.check_c05(world)

    def probes(self, world):
        p = log_probes(world)
        p.update(feature_probes(world))
        return p
