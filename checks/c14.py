"""C14 - a reader's saved position (head file) survives a stop at any instant, including in the middle of a save."""

import copy

from world import rolllog as W
from .c13 import REAL_CODE, STUBS

ASSUMPTIONS = [
    'process-crash semantics: file-system calls that completed persist, bytes still in a Python-level write buffer of the '
    'stopped process are lost, its handles vanish; power loss (un-synced data after a completed rename) is out of scope',
    'every RollLog API call of the writer is atomic with respect to the reader; the reader is stopped before any of its own '
    'file-system calls (open / write / close / rename / read / stat / listdir ...) or between two of its operations',
    'the position a restart resumes from is observed through tell() right after construction and must equal the previously '
    'saved or the newly saved model position, up to files that no longer exist',
    'after a restart the C13 reader oracle applies (order, duplicates within an incarnation, torn, nothing on disk skipped)',
    'the clock only advances (no timestamp trouble here; that is C13)',
]


class Spec:
    prop = 'C14'
    level = 'fault_enumeration'
    chunk = 16
    rule = ('a case is one seeded history of writes (with pruning), reads, read_blocks, position saves (write_head, '
            'close+reopen) and optionally external deletes, executed once without crash and then once per crash point: '
            'before every file-system call of every save and right after its last one, before every reader operation, '
            'plus a sample of the reader\'s other file-system calls; each followed by a restart after 0-3 further '
            'operations and, per knob, up to 2 (thorough: 3) further crash/restart cycles; non-trivial if at least one '
            'crash hit inside a save and a record was delivered after a restart; distinct = distinct digests over all '
            'runs of the case (every operation, observed result, crash and resume position)')
    real_code = REAL_CODE
    stubs = STUBS
    assumptions = ASSUMPTIONS

    def __init__(self, tier='quick'):
        self.tier = tier

    def budget(self, tier):
        return (12_000, 100) if tier == 'quick' else (100_000, 1500)

    def run_case(self, seed, replay=None):
        return W.run_case_c14(seed, replay, self.tier)

    def nontrivial(self, res):
        return bool(res.get('nontrivial'))

    def replay_payload(self, res):
        return {'history': res['history'], 'knobs': res['knobs'], 'streams': {}}

    def sample_of(self, res):
        return {'seed': res['seed'], 'knobs': res['knobs'], 'history_head': res['history'][:30],
                'n_ops': len(res['history']), 'runs': res.get('runs'), 'probes': res.get('probes')}

    def human(self, res):
        return {'knobs': res['knobs'], 'history': res['history'], 'traces': res.get('traces'),
                'probes': res.get('probes')}

    def reducers(self, payload):
        k = payload['knobs']
        hist = payload['history']
        n = len(hist)
        # 1. only the crash plan(s) that failed
        vp = k.get('viol_plans')
        if vp and k.get('crash_plans') is None:
            for plan in vp:
                c = copy.deepcopy(payload)
                c['knobs']['crash_plans'] = [plan]
                yield c
                if len(plan) > 1:
                    c = copy.deepcopy(payload)
                    c['knobs']['crash_plans'] = [plan[:1]]
                    yield c
        if k.get('crash_plans'):
            for plan in k['crash_plans']:
                for e_i, e in enumerate(plan):
                    if e.get('down'):
                        c = copy.deepcopy(payload)
                        for pl in c['knobs']['crash_plans']:
                            for e2 in pl:
                                e2['down'] = 0
                        yield c
                        break
                if len(plan) > 1:
                    c = copy.deepcopy(payload)
                    c['knobs']['crash_plans'] = [plan[:-1]]
                    yield c
        # 2. shorter history; with a fixed plan also try the full enumeration again on the shorter history
        variants = [lambda c: c]
        if k.get('crash_plans'):
            def full(c):
                c['knobs']['crash_plans'] = None
                c['knobs'].pop('viol_plans', None)
                return c
            variants.append(full)
        for m in (n // 2, n - 1):
            if 0 < m < n:
                for var in variants:
                    c = copy.deepcopy(payload)
                    del c['history'][m:]
                    yield var(c)
        size = max(1, n // 4)
        while size >= 1:
            for i in range(0, n, size):
                for var in variants:
                    c = copy.deepcopy(payload)
                    del c['history'][i:i + size]
                    if c['history']:
                        yield var(c)
            if size == 1:
                break
            size //= 2
        for i, op in enumerate(hist):
            if op['op'] == 'write' and op.get('size', 0) > 3:
                c = copy.deepcopy(payload)
                c['history'][i]['size'] = 3
                yield c
            elif op['op'] == 'read_block':
                c = copy.deepcopy(payload)
                c['history'][i]['op'] = 'read'
                yield c
        simple = {'mode': 'txt', 'total_size': 10 ** 9, 'file_size': 10, 'cycles': 1, 'other_points': 0}
        for key, val in simple.items():
            if k.get(key) != val:
                c = copy.deepcopy(payload)
                c['knobs'][key] = val
                yield c
