"""C10 - frame views never go stale, never alias what they promise to copy (history half of the technique only: seeded
operation histories against a reference model, oracle after every step, shrinking, replay; no clock, fault or schedule)."""

import concurrent.futures as cf
import copy
import multiprocessing as mp
import os
import time
import traceback

from run.driver import vkey
from sim.choice import ChoiceSource
from world import frames as FR

EXH_CHUNK = 2000


class Spec:
    prop = 'C10'
    level = 'exploration'
    chunk = 200
    rule = ('cases are seeded operation histories (1..8 ops quick, 1..12 thorough) over a pool of real Frame objects: '
            'construct from array / jpg / another frame, copy, rw, ro, rgb, bgr, gray, rw_rgb, rw_bgr, ro_rgb, ro_bgr, '
            'read .image / .jpg, pickle round trip, pixel writes through any writable image or original array; each next op is '
            'drawn given the pool so far, half of the time on the slot used last; the reference model is checked after every '
            'step. A case is non-trivial if at least one view/conversion op ran and at least one pixel write or .jpg read '
            'ran; distinct = distinct digests over (executed op, observed format / writability / jpg state / pixels) of '
            'every step among non-trivial cases. Additionally (coverage.exhaustive_part) every sequence of exactly d symbols '
            '(d=3 quick, d=4 thorough; all shorter ones are prefixes, the oracle runs after every step) over the alphabet '
            '{9 view ops, copy, pickle, image, jpg, write} x {start frame, newest frame} + newdata(start) is run from 4 '
            'start frames (writable BGR, read-only RGB, lazily decoded BGR jpg, writable GRAY)')
    real_code = ['openfilter/filter_runtime/frame.py (Frame: constructors, from_jpg, copy, image, jpg, all rw/ro/rgb/bgr/gray '
                 'views, __reduce__/unreduce)']
    stubs = []
    assumptions = [
        'numpy memory semantics and np.shares_memory are trusted; cv2.cvtColor / imdecode / imencode are the ground truth for '
        'luminance and JPEG (same calls as the code under test), channel reversal and GRAY replication are computed independently',
        'GRAY -> RGB/BGR is taken to mean channel replication (what cv2 4.x does for a 1-channel input to COLOR_RGB2BGR)',
        'format relabelling Frame(frame, None, fmt) is only exercised between RGB and BGR (a label that contradicts the channel '
        'count is garbage in)',
        'a jpg encoded from an image is accepted when its decode is within 2 x (error of a fresh default cv2 encode of the same '
        'pixels) + 8 grey levels mean absolute error; a jpg a frame was built from must be kept byte-identical and decode exactly',
        'writes go through writable numpy arrays only (frame.image or the array a frame was constructed from); nobody flips '
        'numpy flags from outside, no read-only views over writable buffers are handed to Frame',
    ]

    def __init__(self, tier='quick'):
        self.tier = tier
        self.max_len = 8 if tier == 'quick' else 12
        self.exh_depth = 3 if tier == 'quick' else 4

    def budget(self, tier):
        """(number of cases, wall budget in seconds). Measured on 16 cores: ~0.3 ms per history and core; quick 50 k
        histories + 97 k exhaustive sequences in ~6 s, thorough 2 M histories in ~140 s + 2.8 M exhaustive in ~50 s."""
        return (50_000, 60) if tier == 'quick' else (2_000_000, 1200)

    def run_case(self, seed, replay=None):
        if replay is not None:
            ch = ChoiceSource(replay={})
            world = FR.run_history(replay['history'])
        else:
            ch = ChoiceSource(seed)
            world = FR.run_history(None, ch, self.max_len)
        p = dict(world.probes)
        p.update(views=world.n_views, writes=world.n_writes, jpg_reads=world.n_jpg_reads)
        return {
            'seed': seed,
            'history': world.history,
            'streams': ch.export(),
            'digest': world.digest.hex(),
            'violations': world.violations,
            'nontrivial': world.n_views > 0 and (world.n_writes > 0 or world.n_jpg_reads > 0),
            'steps': len(world.history),
            'vtime_s': 0.0,
            'harness_errors': [],
            'probes': p,
        }

    def nontrivial(self, res):
        return bool(res.get('nontrivial'))

    def replay_payload(self, res):
        return {'history': res['history'], 'streams': {}}

    def sample_of(self, res):
        return {'seed': res['seed'], 'steps': res['steps'], 'history': [_brief(op) for op in res['history']]}

    def human(self, res):
        return {'history': [f'{i}: {_brief(op)}' for i, op in enumerate(res['history'])],
                'violations': [v['message'] for v in res['violations']]}

    # -- structural reducers: fewer ops, smaller images, simpler values -------------------------------------------------

    def reducers(self, payload):
        hist = payload['history']
        for i in reversed(range(len(hist))):
            yield {'history': FR.drop_op(hist, i), 'streams': {}}
        for i, op in enumerate(hist):
            for key, simple in (('h', 1), ('w', 1), ('fill', 0), ('y', 0), ('x', 0), ('val', [9, 8, 7]), ('via', 'image'),
                                ('dims', False), ('fmt', 'BGR')):
                if key in op and op[key] != simple:
                    c = copy.deepcopy(hist)
                    c[i][key] = simple
                    yield {'history': c, 'streams': {}}
            if op.get('op') == 'from_jpg':
                c = copy.deepcopy(hist)
                c[i] = {'op': 'new_array', 'fmt': op['fmt'], 'h': op['h'], 'w': op['w'], 'fill': op['fill'], 'writable': False}
                yield {'history': c, 'streams': {}}
            for key in ('src', 'target'):
                if op.get(key):
                    c = copy.deepcopy(hist)
                    c[i][key] = 0
                    yield {'history': c, 'streams': {}}

    # -- exhaustive part -------------------------------------------------------------------------------------------------

    def extra_coverage(self, batch):
        """Run every op sequence of the reduced alphabet to depth d; violating results join the batch (minimised and
        reported like any other), the rest is only counted."""
        t0 = time.time()
        depth = int(os.environ.get('VERIF_C10_DEPTH') or self.exh_depth)
        total = FR.exh_count(depth)
        cap_s = 120 if self.tier == 'quick' else 900
        workers = int(os.environ.get('VERIF_WORKERS') or min(16, os.cpu_count() or 1))
        jobs = [(depth, lo, min(lo + EXH_CHUNK, total)) for lo in range(0, total, EXH_CHUNK)]
        agg = {'sequences': 0, 'all_ops_executed': 0, 'nontrivial': 0, 'steps': 0, 'violating': 0, 'probes': {}}

        def take(out):
            n, full, nt, steps, probes, n_bad, bad, errs = out
            agg['violating'] += n_bad
            batch.n_violating += n_bad
            batch.harness.extend(errs)
            agg['sequences'] += n
            agg['all_ops_executed'] += full
            agg['nontrivial'] += nt
            agg['steps'] += steps
            for k, v in probes.items():
                agg['probes'][k] = agg['probes'].get(k, 0) + v
            for res in bad:
                for v in res['violations']:
                    k = vkey(v)
                    if k not in batch.viol or res['idx'] < batch.viol[k][0]:
                        batch.viol[k] = (res['idx'], v, res)

        global _EXH_SPEC
        _EXH_SPEC = (self, batch.n)
        if workers <= 1:
            for j in jobs:
                take(_exh_chunk(j))
                if time.time() - t0 > cap_s:
                    break
        else:
            with cf.ProcessPoolExecutor(max_workers=workers, mp_context=mp.get_context('fork')) as ex:
                try:
                    for out in ex.map(_exh_chunk, jobs):
                        take(out)
                        if time.time() - t0 > cap_s:
                            break
                except cf.process.BrokenProcessPool as exc:
                    batch.harness.append((-1, f'exhaustive worker died: {exc}'))
                finally:
                    ex.shutdown(wait=False, cancel_futures=True)
        return {'exhaustive_part': {'depth': depth, 'alphabet': len(FR.EXH_ALPHABET), 'start_frames': len(FR.EXH_STARTS),
                               'planned': total, 'complete': agg['sequences'] == total, 'wall_s': round(time.time() - t0, 1),
                               **agg}}


_EXH_SPEC = None


def _exh_chunk(job):
    depth, lo, hi = job
    spec, idx0 = _EXH_SPEC
    n = full = nt = steps = n_bad = 0
    probes = {}
    bad = []
    errs = []
    for idx in range(lo, hi):
        try:
            res = spec.run_case(None, {'history': FR.exh_history(idx, depth)})
        except Exception:
            if len(errs) < 3:
                errs.append((idx0 + idx, traceback.format_exc()))
            continue
        n += 1
        full += res['steps'] == depth + 1
        nt += bool(res['nontrivial'])
        steps += res['steps']
        for k, v in res['probes'].items():
            probes[k] = probes.get(k, 0) + v
        if res['violations']:
            n_bad += 1
            if len(bad) < 3:
                res['idx'] = idx0 + idx
                res['seed'] = f'exh{depth}-{idx}'
                bad.append(res)
    return n, full, nt, steps, probes, n_bad, bad, errs


def _brief(op):
    op = dict(op)
    kind = op.pop('op')
    return kind + '(' + ', '.join(f'{k}={v}' for k, v in op.items()) + ')'
