"""C04 - a stalled synchronized consumer stalls its producers (bounded buffering)."""

from sim.core import EPOCH_NS
from world import oracles, gen as G
from world.gen import Profile
from world.mq import SEC
from .c01 import log_probes
from .mqspec import MQSpec


class Spec(MQSpec):
    prop = 'C04'
    level = 'exploration'
    chunk = 4
    keep_backbone = True
    protected_keys = ('stall_at',)

    def __init__(self, tier='quick'):
        super().__init__(tier)
        self.profiles = [(Profile('stall', faults=(), lat_max_ms=40, max_proc_ms=150, knob_variation=False), 1)]

    def generate(self, ch, prof):
        return G.gen_c04(ch, prof)

    def budget(self, tier):
        return (1500, 100) if tier == 'quick' else (40_000, 1500)

    def stop(self, world):
        def stop_when():
            si = world.stall_info
            if si is not None and world.sched.now > si[0] + si[1] + 3 * SEC:
                return 'stall-over'
            return None
        return stop_when

    def oracle(self, world):
        return oracles.check_c04(world)

    def nontrivial(self, res):
        return res.get('ostats', {}).get('c04_long_stalls', 0) > 0

    def probes(self, world):
        return log_probes(world)
