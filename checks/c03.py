"""C03 - a synchronized pipeline computes the composition of its filters, frame for frame."""

from world import oracles
from world.gen import Profile
from world.mq import MS
from run import mqcase
from .c01 import log_probes, feature_probes
from .mqspec import MQSpec


def c03_profile(tier, **kw):
    base = dict(shapes=('chain', 'tee', 'tee_rejoin', 'join'), faults=(), required='always', skip_on_rejoin=False,
                lat_max_ms=40, knob_variation=False, max_frames=25 if tier == 'quick' else 40,
                max_proc_ms=400 if tier == 'quick' else 3000, settle_ns=2000 * MS, t_end_s=400,
                max_relays=2 if tier == 'quick' else 3)
    base.update(kw)
    return Profile('c03', **base)


class Spec(MQSpec):
    prop = 'C03'
    level = 'exploration'
    keep_backbone = True
    protected_keys = ('outputs_required',)

    def __init__(self, tier='quick'):
        super().__init__(tier)
        self.profiles = [(c03_profile(tier), 1)]

    def generate(self, ch, prof):
        sc = super().generate(ch, prof)
        mx = 0
        for spec in sc['nodes'].values():
            mx = max([mx] + list(spec.get('proc_ns') or [0]))
        sc['settle_ns'] = max(sc['settle_ns'], int(1.5 * mx) + 700 * MS)
        sc['max_steps'] = 600_000
        return sc

    def budget(self, tier):
        return (2000, 100) if tier == 'quick' else (80_000, 1500)

    def oracle(self, world):
        return oracles.check_c03(world)

    def probes(self, world):
        p = log_probes(world)
        p.update(feature_probes(world))
        return p
