"""C02 - each consumer gets every upstream message at most once, in order, unaltered."""

from world import oracles
from .c01 import union_profiles, log_probes, feature_probes
from .mqspec import MQSpec


class Spec(MQSpec):
    prop = 'C02'
    level = 'exploration'

    def __init__(self, tier='quick'):
        super().__init__(tier)
        self.profiles = union_profiles(tier)

    def oracle(self, world):
        return oracles.check_c02(world)

    def probes(self, world):
        p = log_probes(world)
        p.update(feature_probes(world))
        return p
