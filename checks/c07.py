"""C07 - load balancing: one branch per frame, ordered duplicate-free rejoin."""

from world import oracles
from world import gen as G
from world.gen import Profile
from .c01 import log_probes
from .mqspec import MQSpec


class Spec(MQSpec):
    prop = 'C07'
    level = 'exploration'

    def __init__(self, tier='quick'):
        super().__init__(tier)
        self.profiles = [
            (Profile('balance', shapes=('balance',), faults=(), lat_max_ms=40, max_proc_ms=200,
                     max_frames=30 if tier == 'quick' else 40, required='maybe', knob_variation=tier != 'quick'), 3),
            (Profile('balance-watch', shapes=('balance',), faults=(), lat_max_ms=40, max_proc_ms=200, ephemeral=1,
                     eph_kinds=(2,), max_frames=30, required='maybe', knob_variation=False), 1),
            # rolling restarts inside the balanced section: a worker (or the splitter / the rejoin) is shut down cleanly
            # (CLOSE and exit messages are sent; nobody obeys them) or killed, and started again
            (Profile('balance-restart', shapes=('balance',), faults=('restart_graceful', 'restart_graceful', 'kill'), max_faults=4,
                     fault_free_pct=0, lat_max_ms=40, max_proc_ms=200, max_frames=40, required='maybe',
                     knob_variation=False), 3),
        ]

    def generate(self, ch, prof):
        sc = G.gen_scenario(ch, prof)
        if prof.name == 'balance-restart':
            for spec in sc['nodes'].values():
                spec['obey_exit'] = 'none'
        return sc

    def budget(self, tier):
        return (2000, 100) if tier == 'quick' else (60_000, 1500)

    def oracle(self, world):
        return oracles.check_c07(world)

    def probes(self, world):
        p = log_probes(world)
        p['rejoin_sets'] = world.ostats.get('c07_rejoin_sets', 0)
        return p
