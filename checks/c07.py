"""C07 - load balancing: one branch per frame, ordered duplicate-free rejoin."""

from world import oracles
from world.gen import Profile
from .c01 import log_probes
from .mqspec import MQSpec


class Spec(MQSpec):
    prop = 'C07'
    level = 'exploration'

    def __init__(self, tier='quick'):
        super().__init__(tier)
        self.profiles = [
            (Profile('balance', shapes=('balance',), faults=(), lat_max_ms=40, max_proc_ms=200,
                     max_frames=30 if tier == 'quick' else 40, required='maybe', knob_variation=tier != 'quick'), 3),
            (Profile('balance-watch', shapes=('balance',), faults=(), lat_max_ms=40, max_proc_ms=200, ephemeral=1,
                     eph_kinds=(2,), max_frames=30, required='maybe', knob_variation=False), 1),
        ]

    def budget(self, tier):
        return (2000, 100) if tier == 'quick' else (60_000, 1500)

    def oracle(self, world):
        return oracles.check_c07(world)

    def probes(self, world):
        p = log_probes(world)
        p['rejoin_sets'] = world.ostats.get('c07_rejoin_sets', 0)
        return p
