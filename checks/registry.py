"""Property id -> spec class."""

import importlib

CLAIMED = ['C01', 'C02', 'C03', 'C04', 'C05', 'C06', 'C07', 'C08', 'C10', 'C13', 'C14', 'C15', 'C18']


def spec_for(prop, tier):
    mod = importlib.import_module(f'checks.{prop.lower()}')
    return mod.Spec(tier)
