"""C06 - pipelines keep moving and heal themselves after restarts and stalls."""

from sim.core import EPOCH_NS
from world import oracles, gen as G
from world.gen import Profile
from world.mq import MS, SEC
from .c01 import log_probes
from .mqspec import MQSpec


def c06_profile(tier):
    return Profile('c06', shapes=('chain', 'tee', 'tee_rejoin', 'join', 'balance', 'eph_rejoin'), faults=(), required='maybe',
                   skip=True, skip_on_rejoin=False, src_skip=False, lat_max_ms=40, knob_variation=False, max_proc_ms=120,
                   max_relays=2, staggered_start=True, endless=True, low_latency=True, empty=False,
                   ephemeral=1, eph_kinds=(1, 2))      # slow / stalled '?' and '??' side listeners must not matter


class Spec(MQSpec):
    prop = 'C06'
    level = 'fault_enumeration'
    chunk = 4
    keep_backbone = True
    protected_keys = ('outputs_required',)

    def __init__(self, tier='quick'):
        super().__init__(tier)
        self.profiles = [(c06_profile(tier), 1)]

    def generate(self, ch, prof):
        sc = G.gen_c06(ch, prof)
        if self.tier == 'thorough' and sc['faults'] and ch.chance('fault', 1, 2):
            # kill / stall point drawn uniformly over the SCHEDULING STEPS of a fault-free reference run of the same
            # scenario (activity-weighted: lands inside publishes, handshakes, request bursts), not over virtual time
            import copy
            from sim.choice import ChoiceSource
            from world.mq import MQWorld
            ref = copy.deepcopy(sc)
            ref['faults'] = []
            ref['t_end_ns'] = 3500 * MS
            ref['fifo'] = False
            w = MQWorld(ref, ChoiceSource(ch.draw('fault', 1 << 30)))
            w.run()
            f = sc['faults'][0]
            f.pop('at_ns', None)
            f.pop('plus_steps', None)
            f['at_step'] = 1 + ch.draw('fault', max(1, w.sched.step))
            sc['kill_point'] = 'reference-step'
        return sc

    def budget(self, tier):
        return (1200, 110) if tier == 'quick' else (40_000, 1500)

    def stop(self, world):
        sc = world.sc
        H, start = oracles.heal_bound_ns(sc)
        planned_end = max([f.get('at_ns', 0) + (f.get('restart_after_ns') or 0) + f.get('dur_ns', 0)
                           for f in sc.get('faults') or []] or [0])

        def stop_when():
            now = world.sched.now
            t_f = oracles.fault_end_ns(world)
            ref = max(EPOCH_NS + start, t_f or 0, EPOCH_NS + planned_end)
            if now > ref + H + 500 * MS:
                return 'healed-window-over'
            return None
        return stop_when

    def oracle(self, world):
        return oracles.check_c06(world)

    def nontrivial(self, res):
        return res.get('n_in', 0) > 0 and res.get('ostats', {}).get('c06_progress_checks', 0) > 0

    def probes(self, world):
        return log_probes(world)
