"""C18 - a filter run emits a well-formed lineage history."""

from world import gen as G
from world.gen import Profile
from world.lineage import LineageWorld, check_c18
from world.mq import MS, SEC
from .mqspec import MQSpec, REAL_CODE, STUBS


class Spec(MQSpec):
    prop = 'C18'
    level = 'exploration'
    chunk = 8
    keep_backbone = True
    protected_keys = ('inject',)
    world_class = LineageWorld
    real_code = REAL_CODE + ['openfilter/observability/lineage.py (OpenFilterLineage incl. its heartbeat thread, as a scheduler task)']
    stubs = STUBS + ['OpenLineage transport (capturing in-memory client passed through OpenFilterLineage(client=...))',
                     'threading in lineage.py (Thread/Event/Lock are scheduler objects: every operation is a yield point)']

    def __init__(self, tier='quick'):
        super().__init__(tier)
        self.profiles = [(Profile('c18'), 1)]

    def generate(self, ch, prof):
        sc = G.gen_c08(ch, prof)
        for spec_ in sc['nodes'].values():
            spec_.pop('loop_exc', None)      # the loop_exc=False relay finding of C08 is not C18's subject
        # run length relative to the heartbeat interval: from shorter than one interval to many
        interval = ch.pick('gen', [1, 2, 5, 10])
        ratio = ch.pick('gen', [3, 0.3, 1, 8])
        t_ms = max(400, int(interval * ratio * 1000))
        sc['lineage'] = {'interval_s': interval, 'emit_latency_ms': ch.pick('gen', [0, 1, 40, 300, 700])}
        if ch.chance('gen', 1, 3):
            # transport fault: the backend receives an event but emit() raises (answer lost), 1 in N emits
            sc['lineage']['emit_faults'] = ch.pick('gen', [3, 2, 6])
        if self.tier == 'thorough' and ch.chance('gen', 1, 3):
            sc['lineage']['line_preempt'] = True       # line-granularity interleaving inside lineage.py
        sc['t_cause_ms'] = t_ms
        x = sc['x']
        spec = sc['nodes'][x]
        for f in sc['faults']:
            f['at_ns'] = t_ms * MS
        if sc['cause'] == 'exit_after_secs':
            spec['exit_after'] = t_ms / 1000
        elif sc['cause'] == 'exit_after_str':
            spec['exit_after'] = f'0:{t_ms / 1000:.3f}'
        elif sc['cause'] == 'exit_after_at':
            spec['exit_after'] = '@+' + str(t_ms)
        for inj in spec.get('inject') or []:
            if inj['stage'] == 'process' and not sc.get('early'):
                period = sc['nodes']['a']['period_ns'] // MS
                inj['k'] = max(2, t_ms // max(period, 20))
        sc['t_end_ns'] = (t_ms // 1000 + 40) * SEC
        sc['max_steps'] = 300_000
        return sc

    def budget(self, tier):
        return (1500, 100) if tier == 'quick' else (60_000, 1500)

    def stop(self, world):
        x = world.sc['x']

        def stop_when():
            p = world.procs.get(x)
            if p and p[0].exited:
                t = world.__dict__.setdefault('_t_x_exit', world.sched.now)
                if world.sched.now > t + 2500 * MS:
                    return 'after-exit-window'
            return None
        return stop_when

    def oracle(self, world):
        return check_c18(world)

    def nontrivial(self, res):
        return res.get('ostats', {}).get('c18_ended_histories', 0) > 0

    def probes(self, world):
        p = {'cause_' + world.sc['cause']: 1, 'interval_%ds' % world.sc['lineage']['interval_s']: 1}
        n_run = 0
        for c in world.lineage.values():
            n_run += sum(1 for e in c.events if e[2] == 'RUNNING')
        p['running_events'] = n_run
        return p

    def reducers(self, payload):
        return iter(())
