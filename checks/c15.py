"""C15 - passwords embedded in URIs never leave the filter in clear text (log lines, frames on the wire, lineage events).

The quantifier of the statement ranges over inputs and configurations: that part is seeded sampling (class, scheme, user,
password, position of the URI in the configuration, before/after normalisation). What the simulation adds is the observation
side: the subject filter really runs (constructor, init on the simulated network with a lineage emitter, setup, loop, faults,
shutdown, fini) and everything it emits on the way - on the normal path and on the fault paths - is searched."""

import copy

from world.gen import Profile
from world.mq import MS, SEC, bind_addr, conn_addr
from world import secrets as S
from world.secrets import SecretsWorld, check_c15, CLASS_NAMES, REAL_SETUP, PRODUCERS, CONSUMERS, SUBJECT
from .mqspec import MQSpec, REAL_CODE, STUBS, ASSUMPTIONS

B36 = '0123456789abcdefghijklmnopqrstuvwxyz'

# schemes a class accepts in its URI-valued field (first = simplest)
NATURAL = {
    'Filter': ['tcp'], 'Util': ['tcp'],
    'VideoIn': ['rtsp', 'http', 'https', 'rtmp', 'file', 's3'],
    'VideoOut': ['rtsp', 'file'],
    'ImageIn': ['file', 's3', 'gs'],
    'ImageOut': ['file'], 'Recorder': ['file'],
    'MQTTOut': ['mqtt'], 'REST': ['http'], 'Webvis': ['http'],
}
SCHEMES = ['rtsp', 'http', 'https', 'rtmp', 's3', 'file', 'tcp', 'mqtt', 'ws', 'ftp', 'gs', 'amqp', 'redis', 'ipc']
USERS = ['alice', '', 'a.b-c', 'us%40er', 'admin_1', 'x']
SPECIALS = ['', '!', ':', '/', '?', '#', '!x', '%21', '$&', '=+', '!a=1', '%40', ':/?#!', '%2F%3A', ';t', ',c']
URI_FIELD = {'Filter': 'sources', 'Util': 'sources', 'VideoIn': 'sources', 'ImageIn': 'sources', 'REST': 'sources',
             'VideoOut': 'outputs', 'ImageOut': 'outputs', 'Recorder': 'outputs', 'MQTTOut': 'outputs', 'Webvis': 'outputs'}
DEFAULT_PATH = {'VideoIn': '/live/s1', 'VideoOut': '/live/out', 'ImageIn': '/imgs', 'ImageOut': '/i/img_%d.png',
                'Recorder': '/r/rec.json', 'MQTTOut': '/base', 'REST': '/api', 'Webvis': '', 'Filter': '', 'Util': ''}
TEXT_TAILS = {
    'VideoIn': ['!sync', '!loop=2;cam', ';cam', '!no-bgr!maxfps=10'],
    'VideoOut': ['!fps=15', ';main', '!segtime=1', '!fps=10;main'],
    'ImageIn': ['!loop', ';main', '!pattern=*.jpg;imgs'],
    'ImageOut': ['!format=png', ';main', '!quality=90;main'],
    'Recorder': ['!append'],
    'MQTTOut': ['!qos=1', ' ; main/data > dat', '!retain ; main'],
    'REST': [';frames>main', ';(GET|POST)up>main'],
    'Webvis': [''],
    'Filter': [';main', ';*', '?', ';main>other'],
    'Util': [';main', ';*', '?', ';main>other'],
}
PLACES = ['field_str', 'extra_option', 'nested_dict', 'per_source_record', 'field_list', 'field_commalist', 'field_tuple',
          'field_text_opts', 'record_option', 'extra_list', 'nested_dict_deep', 'list_in_dict', 'dict_in_list',
          'tuple_in_dict', 'extra_metrics', 'other_field_str']
PLACE_WEIGHTS = [3, 1, 1, 3, 2, 2, 2, 3, 1, 1, 1, 1, 1, 1, 1, 1]     # the class's own URI-valued field more often
USER_WEIGHTS = [3, 2, 1, 1, 1, 1]
LIFECYCLES = ['normal', 'setup_raise', 'process_raise', 'setup_raise_quoting', 'process_raise_quoting']


def T(*items):
    return {'__tuple__': list(items)}


def base_config(cls, a_u, b_x):
    c = {'id': SUBJECT, 'log_path': False, 'outputs_metrics': False}
    if cls in ('Filter', 'Util'):
        c.update(sources=a_u, outputs=b_x)
    elif cls == 'VideoIn':
        c.update(sources='rtsp://plain.example.com/s0', outputs=b_x)
    elif cls == 'ImageIn':
        c.update(sources='file:///nonexistent-verif/in', outputs=b_x)
    elif cls == 'REST':
        c.update(sources='http://0.0.0.0:8080', outputs=b_x)
    elif cls == 'VideoOut':
        c.update(sources=a_u, outputs='file:///nonexistent-verif/o.mp4')
    elif cls == 'ImageOut':
        c.update(sources=a_u, outputs='file:///nonexistent-verif/img_%d.png')
    elif cls == 'Recorder':
        c.update(sources=a_u, outputs='file:///nonexistent-verif/rec.json')
    elif cls == 'MQTTOut':
        c.update(sources=a_u, outputs='mqtt://broker.example.com:1883/base')
    elif cls == 'Webvis':
        c.update(sources=a_u, outputs='http://0.0.0.0:8000')
    return c


def place_uri(cls, kind, cfg, uri, plain, first, tail):
    """Put the URI at the chosen position of the configuration; returns the name of the position class."""
    F = URI_FIELD[cls]
    other = 'outputs' if F == 'sources' else 'sources'
    pair = [uri, plain] if first else [plain, uri]
    if kind == 'field_str':
        cfg[F] = uri
        return f'{F}_str'
    if kind == 'field_commalist':
        cfg[F] = (', ' if tail % 2 == 0 else ',').join(pair)       # 'a, b' and the equally valid 'a,b'
        return f'{F}_commalist' + ('' if tail % 2 == 0 else '_nospace')
    if kind == 'field_list':
        cfg[F] = pair if tail else [uri]
        return f'{F}_list'
    if kind == 'field_tuple':
        cfg[F] = T(*pair) if tail else T(uri)
        return f'{F}_tuple'
    if kind == 'field_text_opts':
        tails = TEXT_TAILS[cls]
        cfg[F] = uri + tails[tail % len(tails)]
        return f'{F}_text_opts'
    if kind == 'other_field_str':
        cfg[other] = uri
        return f'{other}_str'
    if kind == 'per_source_record':
        if cls in ('VideoIn', 'ImageIn'):
            recs = [{'source': uri, 'topic': 'main', 'options': {'loop': False}}]
            if tail % 2:
                recs.append({'source': plain, 'topic': 'b'})
            cfg[F] = recs
            return 'per_source_record'
        if cls in ('VideoOut', 'ImageOut'):
            recs = [{'output': uri, 'topic': 'main',
                     'options': ({}, {'fps': 15}, {'fps': 10, 'segtime': 1}, {'segtime': '0:30'})[tail] if cls == 'VideoOut' else {}}]
            cfg[F] = recs
            return 'per_source_record'
        if cls == 'Recorder':
            cfg[F] = [T(uri, {'append': True})]
            return 'per_source_record'
        kind = 'extra_option'
    if kind == 'record_option':
        if cls == 'VideoIn':
            cfg[F] = [{'source': 'rtsp://plain.example.com/s0', 'options': {'region': uri}}]
            return 'record_option'
        if cls == 'ImageIn':
            cfg[F] = [{'source': 'file:///nonexistent-verif/in', 'options': {'pattern': uri}}]
            return 'record_option'
        if cls == 'VideoOut':
            cfg[F] = [{'output': 'file:///nonexistent-verif/o.mp4', 'options': {'fps': 15, 'params': {'metadata': uri}}}]
            return 'record_option'
        if cls == 'ImageOut':
            cfg[F] = [{'output': 'file:///nonexistent-verif/img_%d.png', 'options': {'format': uri}}]
            return 'record_option'
        if cls == 'Recorder':
            cfg[F] = [T('file:///nonexistent-verif/rec.json', {'append': uri})]
            return 'record_option'
        cfg['options'] = {'url': uri}
        return 'nested_dict'
    if kind == 'extra_option':
        cfg['webhook'] = uri
        return 'extra_option'
    if kind == 'extra_list':
        cfg['webhooks'] = pair
        return 'extra_list'
    if kind == 'nested_dict':
        cfg['auth'] = {'endpoint': uri, 'retries': 3}
        return 'nested_dict'
    if kind == 'nested_dict_deep':
        cfg['auth'] = {'primary': {'endpoint': uri}, 'mode': 'basic'}
        return 'nested_dict_deep'
    if kind == 'list_in_dict':
        cfg['auth'] = {'endpoints': pair}
        return 'list_in_dict'
    if kind == 'dict_in_list':
        cfg['servers'] = [{'url': uri}, {'url': plain}] if first else [{'url': plain}, {'url': uri}]
        return 'dict_in_list'
    if kind == 'tuple_in_dict':
        cfg['auth'] = {'pair': T(uri, 1)}
        return 'tuple_in_dict'
    if kind == 'extra_metrics':
        cfg['extra_metrics'] = {'dim_origin': uri}
        return 'extra_metrics'
    raise ValueError(kind)


class Spec(MQSpec):
    prop = 'C15'
    level = 'exploration'
    chunk = 8
    world_class = SecretsWorld
    rule = ('cases are seeded (class, URI scheme, user, password, position of the URI in the configuration, before/after '
            'normalisation, lifecycle/fault plan) executed under a seeded schedule; a case is non-trivial if the subject\'s '
            'constructor ran (the configuration reached the real class) and at least one log record, wire message or lineage '
            'event of the run was searched; distinct = distinct event-log digests among non-trivial cases')
    real_code = REAL_CODE + [
        'built-in filter classes Util, Recorder, VideoIn, VideoOut, ImageIn, ImageOut, MQTTOut, REST, Webvis and the base Filter: '
        'constructor (start_logging, normalize_config, config log line), init (MQ on the simulated network, lineage START with '
        'facets), run() loop and error handling, fini',
        'setup/process/shutdown of: base Filter (user subclass, pass-through process), Util, VideoIn (VideoReader, '
        'MultiVideoReader, reader thread as scheduler task), VideoOut (VideoWriter), ImageIn (polling thread as scheduler task)',
        'openfilter/filter_runtime/utils.py (hide_uri_users_and_pwds, Deque)',
        'openfilter/observability/lineage.py (OpenFilterLineage incl. facet flattening and heartbeat thread)',
    ]
    stubs = STUBS + [
        'OpenLineage transport (capturing in-memory client passed through OpenFilterLineage(client=...))',
        'vidgear.gears.VideoGear (a few small frames at a virtual frame period, then None) and WriteGear (swallows frames)',
        'threading / Condition / clocks in video_in.py, image_in.py, util.py, video_out.py and utils.Condition (scheduler objects)',
        'boto3 / google-cloud-storage reported as not installed in video_in.py and image_in.py (no real network)',
        'setup/process/shutdown of Recorder, ImageOut, MQTTOut, REST, Webvis (and of the other classes in mode "stub"): '
        'harmless stand-ins in a dynamically created subclass; constructor, normalize_config, init, run, fini stay the class\'s own',
        'lifecycle faults: an exception injected at the entry of setup or process (optionally quoting the URI, as a library '
        'error that names its argument would)',
    ]
    assumptions = ASSUMPTIONS + [
        'libzmq refuses tcp:// endpoints with user info (EINVAL on connect, ENODEV on bind) and pyzmq appends (addr=...) to '
        'the error text (checked against pyzmq 27.1 / libzmq 4.3.5); the simulated sockets do the same',
        'passwords never contain the configuration grammar\'s own delimiters "," ";" ">" nor an unescaped "@" or whitespace',
        'a configuration the class rejects is a legal outcome; only what is logged / sent / emitted about it is judged',
        'an exception leaving the constructor is not a log record (run() does not log it); Filter.Runner is not simulated',
        '"the rest of the URI stays readable" is judged only where a masked form carrying the URI\'s host is shown: its '
        'scheme must then be the URI\'s own',
    ]

    def __init__(self, tier='quick'):
        super().__init__(tier)
        self.profiles = [(Profile('c15'), 1)]
        S.preload()

    # -- generator ------------------------------------------------------------------------------------------------------

    def generate(self, ch, prof):
        g = lambda n: ch.draw('gen', n)
        cls = ch.pick('gen', CLASS_NAMES)
        nat = NATURAL[cls]
        scheme = ch.pick('gen', nat) if not ch.chance('gen', 1, 3) else ch.pick('gen', SCHEMES)
        user = USERS[ch.weighted('gen', USER_WEIGHTS)]
        toka = 'Qa' + ''.join(B36[g(36)] for _ in range(8))
        tokb = 'Qb' + ''.join(B36[g(36)] for _ in range(8))
        specials = ch.pick('gen', SPECIALS)
        password = toka + specials + tokb
        host = 'cam' + ''.join(B36[g(36)] for _ in range(3)) + '.example.com'
        port = ch.pick('gen', [None, 8554, 443])
        path = DEFAULT_PATH[cls] if scheme in nat and not ch.chance('gen', 1, 4) else ch.pick('gen', ['', '/live/s1', '/a/b.mp4'])
        if scheme in ('tcp', 'ipc'):
            path = ''
        uri = f'{scheme}://{user}:{password}@{host}{":%d" % port if port else ""}{path}'
        # the sibling URI without credentials: same scheme, or (every other case) a different one
        pscheme = scheme if not ch.chance('gen', 1, 2) else ('http' if scheme != 'http' else 'rtsp')
        plain = f'{pscheme}://plain.example.com{path or "/p0"}'
        if ch.chance('gen', 1, 4):
            # the sibling carries the same credentials too (two cameras behind one account), host without a path
            plain = f'{pscheme}://{user}:{password}@sib{host}'

        order = (['u'] if cls in CONSUMERS else []) + [SUBJECT] + (['d'] if cls in PRODUCERS else [])
        idx = {n: i for i, n in enumerate(order)}
        a_u = conn_addr(idx['u']) if 'u' in idx else None
        b_x = bind_addr(idx[SUBJECT])
        cfg = base_config(cls, a_u, b_x)
        kind = PLACES[ch.weighted('gen', PLACE_WEIGHTS)]
        first = not ch.chance('gen', 1, 2)
        tail = g(4)
        place = place_uri(cls, kind, cfg, uri, plain, first, tail)
        renorm = ch.chance('gen', 1, 4)
        lifecycle = LIFECYCLES[ch.weighted('gen', [6, 1, 1, 1, 1])]
        mode = 'real' if cls in REAL_SETUP and not ch.chance('gen', 1, 4) else 'stub'
        stop_ms = ch.pick('gen', [250, 120, 400])
        log_debug = self.tier == 'thorough' and ch.chance('gen', 1, 4)
        if ch.chance('gen', 1, 6):
            cfg['outputs_metrics'] = True if cls in PRODUCERS else False

        inject = []
        if lifecycle != 'normal':
            stage = 'setup' if lifecycle.startswith('setup') else 'process'
            inj = {'stage': stage, 'what': 'raise', 'k': 1 if stage == 'process' else 0}
            if lifecycle.endswith('quoting'):
                inj['msg'] = f'could not open {uri}: connection refused'
            inject.append(inj)

        nodes = {}
        if 'u' in idx:
            nodes['u'] = {'src': True, 'n_frames': 6, 'period_ns': 30 * MS, 'lineage': False,
                          'out': [{'name': 'main', 'img': {'h': 4, 'w': 6, 'fmt': 'BGR', 'mode': 'raw'}}]}
        nodes[SUBJECT] = {'subject': True, 'cls': cls, 'mode': mode, 'config': cfg, 'renorm': renorm, 'inject': inject,
                          'gear': {'n_frames': 3 + g(3), 'fps': ch.pick('gen', [25.0, None, 10.0]), 'period_ms': 40}}
        if lifecycle.startswith('process') and ch.chance('gen', 1, 3):
            # LOOP_EXC=false: the exception is swallowed by the main loop and only logged; the filter keeps running
            nodes[SUBJECT]['loop_exc'] = False
            lifecycle += '_swallowed'
        if 'd' in idx:
            nodes['d'] = {'sources': [{'from': SUBJECT}], 'has_output': False, 'lineage': False}
        return {
            'shape': 'c15', 'order': order, 'nodes': nodes, 'n_frames': 6,
            'faults': [{'kind': 'stop', 'node': SUBJECT, 'at_ns': stop_ms * MS}],
            'lineage': {'interval_s': 1},
            't_end_ns': 4 * SEC, 'max_steps': 60_000, 'log_debug': log_debug,
            'c15': {'cls': cls, 'scheme': scheme, 'user': user, 'empty_user': user == '', 'toka': toka, 'tokb': tokb,
                    'specials': specials, 'host': host, 'uri': uri, 'place': place, 'lifecycle': lifecycle,
                    'renorm': renorm, 'mode': mode},
        }

    def budget(self, tier):
        return (4000, 90) if tier == 'quick' else (40_000, 1200)

    def stop(self, world):
        def stop_when():
            p = world.procs.get(SUBJECT)
            if p and p[0].exited:
                t = world.__dict__.setdefault('_t_x_exit', world.sched.now)
                if world.sched.now >= t + 150 * MS:
                    return 'after-exit-window'
            return None
        return stop_when

    def oracle(self, world):
        return check_c15(world)

    def nontrivial(self, res):
        o = res.get('ostats', {})
        return o.get('c15_ctor_ran', 0) > 0 and (o.get('c15_log_records_searched', 0) + o.get('c15_wire_messages_searched', 0)
                                                  + o.get('c15_lineage_events_searched', 0)) > 0

    def probes(self, world):
        info = world.sc['c15']
        p = {f'cls_{info["cls"]}': 1, f'place_{info["place"]}': 1, f'lifecycle_{info["lifecycle"]}': 1,
             f'mode_{info["cls"]}_{info["mode"]}': 1, f'scheme_{info["scheme"]}': 1,
             'renormalised_config': int(bool(info['renorm'])), 'empty_user': int(bool(info['empty_user'])),
             'debug_log_capture': int(bool(world.sc.get('log_debug')))}
        oc = world.outcomes.get((SUBJECT, 0))
        if oc:
            p[f'outcome_{oc[0]}'] = 1
        life = [e[5] for e in world.events if e[0] == 'life' and e[3] == SUBJECT]
        if 'ctor_enter' in life and 'init_enter' not in life:
            p['config_rejected_by_constructor'] = 1
        elif 'init_enter' in life and 'init_exit' not in life:
            p['config_rejected_by_init'] = 1
        if 'setup_exit' in life:
            p[f'setup_completed_{info["cls"]}'] = 1
        for e in world.events:
            if e[0] == 'log' and e[3] == SUBJECT:
                if e[5] >= 40:
                    p['error_records_of_subject'] = p.get('error_records_of_subject', 0) + 1
                if e[7].startswith('video open:'):
                    p['log_video_open'] = p.get('log_video_open', 0) + 1
                elif e[7].startswith('video serve:') or e[7].startswith('video create:'):
                    p['log_video_out_open'] = p.get('log_video_out_open', 0) + 1
        p['wire_frames_with_meta_src'] = sum(1 for kind, _, _, parts in world.wire
                                             if kind == 'pub' and any(b'"src":' in x for x in parts[1:]))
        return p

    def sample_of(self, res):
        sc = res['scenario']
        return {'seed': res['seed'], 'c15': sc['c15'], 'config': sc['nodes'][SUBJECT]['config'], 'order': sc['order'],
                'inject': sc['nodes'][SUBJECT].get('inject'), 'steps': res.get('steps'), 'outcomes': res.get('outcomes')}

    def human(self, res):
        sc = res['scenario']
        return {'c15': sc['c15'], 'config': sc['nodes'][SUBJECT]['config'], 'order': sc['order'],
                'inject': sc['nodes'][SUBJECT].get('inject'), 'outcomes': res.get('outcomes'),
                'last_events': res.get('trace_tail')}

    def reducers(self, payload):
        sc = payload['scenario']
        x = sc['nodes'][SUBJECT]
        if x.get('renorm'):
            c = copy.deepcopy(payload)
            c['scenario']['nodes'][SUBJECT]['renorm'] = False
            c['scenario']['c15']['renorm'] = False
            yield c
        if sc.get('log_debug'):
            c = copy.deepcopy(payload)
            c['scenario']['log_debug'] = False
            yield c
        if x['config'].get('outputs_metrics'):
            c = copy.deepcopy(payload)
            c['scenario']['nodes'][SUBJECT]['config']['outputs_metrics'] = False
            yield c
