"""C08 - filters start, stop and propagate exits exactly as the lifecycle contract says."""

from sim.core import EPOCH_NS
from world import oracles, gen as G
from world.gen import Profile
from world.mq import MS, SEC
from .c01 import log_probes
from .mqspec import MQSpec


class Spec(MQSpec):
    prop = 'C08'
    level = 'fault_enumeration'
    chunk = 8
    keep_backbone = True
    protected_keys = ('inject',)

    def __init__(self, tier='quick'):
        super().__init__(tier)
        self.profiles = [(Profile('c08'), 1)]

    def generate(self, ch, prof):
        return G.gen_c08(ch, prof)

    def budget(self, tier):
        return (1500, 100) if tier == 'quick' else (60_000, 1500)

    def stop(self, world):
        sc = world.sc
        x = sc['x']

        def stop_when():
            p = world.procs.get(x)
            if p and p[0].exited:
                t = world.__dict__.setdefault('_t_x_exit', world.sched.now)
                if world.sched.now > t + 2500 * MS:
                    return 'after-exit-window'
            return None
        return stop_when

    def oracle(self, world):
        return oracles.check_c08(world)

    def nontrivial(self, res):
        return res.get('ostats', {}).get('c08_incarnations_ended', 0) > 0

    def probes(self, world):
        p = log_probes(world)
        p['cause_' + world.sc['cause']] = 1
        p['topo_' + world.sc['shape']] = 1
        return p

    def reducers(self, payload):
        # the scenario is already minimal by construction (3-4 filters, one cause); only schedule and knobs shrink
        return iter(())
