"""C01 - frames that arrive together stay together: no mixed or partial frame sets."""

from world import oracles
from world.gen import Profile
from .mqspec import MQSpec

FAULTS = ('drop_pub', 'kill', 'partition', 'delay_spike', 'stall')


def union_profiles(tier):
    """C01/C02 must hold everywhere: the union of all MQ profiles."""
    return [
        (Profile('plain', faults=()), 4),
        (Profile('faulty', faults=FAULTS, fault_free_pct=10, hwm_small=True, lat_max_ms=400), 5),
        (Profile('rejoin-heavy', shapes=('tee_rejoin', 'join'), faults=FAULTS, fault_free_pct=40), 4),
        (Profile('ephemeral-side', faults=('drop_pub', 'kill'), ephemeral=2, fault_free_pct=50), 2),
        (Profile('balance', shapes=('balance',), faults=('kill', 'stall'), fault_free_pct=60, max_proc_ms=80), 1),
    ]


class Spec(MQSpec):
    prop = 'C01'
    level = 'exploration'

    def __init__(self, tier='quick'):
        super().__init__(tier)
        self.profiles = union_profiles(tier)

    def oracle(self, world):
        return oracles.check_c01(world)

    def probes(self, world):
        return log_probes(world)


LOG_PROBES = {
    'newer_id_warning': 'received newer message id',
    'older_id_discarded': 'received older message id',
    'downstream_requested_newer': 'downstream requested newer message id',
    'topic_absent_warning': 'not in source topics',
    'client_timeout_dropped': '(timeout)',
    'client_close': '(close)',
}


def log_probes(world):
    out = {}
    for e in world.events:
        if e[0] == 'log':
            msg = e[7]
            for name, pat in LOG_PROBES.items():
                if pat in msg:
                    out[name] = out.get(name, 0) + 1
    return out
