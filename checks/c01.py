"""C01 - frames that arrive together stay together: no mixed or partial frame sets."""

from world import oracles
from world.gen import Profile
from .mqspec import MQSpec

FAULTS = ('drop_pub', 'kill', 'partition', 'delay_spike', 'stall', 'restart_graceful')


def union_profiles(tier):
    """C01/C02 must hold everywhere: the union of all MQ profiles."""
    return [
        (Profile('plain', faults=(), api_consumers=True), 4),
        (Profile('faulty', faults=FAULTS, fault_free_pct=10, hwm_small=True, lat_max_ms=400, api_consumers=True), 5),
        (Profile('rejoin-heavy', shapes=('tee_rejoin', 'join'), faults=FAULTS, fault_free_pct=40), 4),
        (Profile('ephemeral-side', faults=('drop_pub', 'kill'), ephemeral=2, fault_free_pct=50), 2),
        (Profile('balance', shapes=('balance',), faults=('kill', 'stall'), fault_free_pct=60, max_proc_ms=80), 1),
    ]


class Spec(MQSpec):
    prop = 'C01'
    level = 'exploration'

    def __init__(self, tier='quick'):
        super().__init__(tier)
        self.profiles = union_profiles(tier)

    def oracle(self, world):
        return oracles.check_c01(world)

    def probes(self, world):
        p = log_probes(world)
        p.update(feature_probes(world))
        return p


LOG_PROBES = {
    'newer_id_warning': 'received newer message id',
    'older_id_discarded': 'received older message id',
    'downstream_requested_newer': 'downstream requested newer message id',
    'topic_absent_warning': 'not in source topics',
    'client_timeout_dropped': '(timeout)',
    'client_close': '(close)',
}


def log_probes(world):
    out = {}
    for e in world.events:
        if e[0] == 'log':
            msg = e[7]
            for name, pat in LOG_PROBES.items():
                if pat in msg:
                    out[name] = out.get(name, 0) + 1
    return out


def feature_probes(world):
    """How often each scenario feature was exercised (shape, output form, subscription form, behaviours)."""
    sc = world.sc
    out = {'shape_' + str(sc.get('shape')): 1}
    for nid, spec in sc['nodes'].items():
        if spec.get('form'):
            out['form_' + spec['form']] = out.get('form_' + spec['form'], 0) + 1
        for key in ('skip', 'empty', 'defer_none', 'outputs_filter', 'outputs_metrics', 'sources_low_latency',
                    'outputs_required', 'start_delay_ns'):
            if spec.get(key):
                out['node_' + key] = out.get('node_' + key, 0) + 1
        if spec.get('outputs_jpg') is not None:
            out['node_outputs_jpg_' + str(spec['outputs_jpg'])] = out.get('node_outputs_jpg_' + str(spec['outputs_jpg']), 0) + 1
        for o in spec.get('out') or []:
            img = o.get('img')
            if img:
                k = 'img_pass' if img == 'pass' else 'img_' + img.get('mode', 'raw') + '_' + img.get('fmt', 'BGR')
                out[k] = out.get(k, 0) + 1
            if o['name'].startswith('_'):
                out['hidden_topic'] = out.get('hidden_topic', 0) + 1
            if o.get('nodata'):
                out['dataless_frame'] = out.get('dataless_frame', 0) + 1
        for s in spec.get('sources') or []:
            sub = s.get('sub')
            kind = 'all' if sub is None else 'star' if sub == '*' else \
                'absent' if any(a == 'nope' for a, b in sub) else 'remap' if any(a != b for a, b in sub) else 'explicit'
            out['sub_' + kind] = out.get('sub_' + kind, 0) + 1
            if s.get('eph'):
                out['eph_%d' % s['eph']] = out.get('eph_%d' % s['eph'], 0) + 1
    return out
