"""C13 - rolling logs: every record exactly once and in order across roll-overs and refreshes, whole-file skips only
for pruned / deleted files, disk budget, newest file never pruned, no roll-over overwrites an existing log file."""

import copy

from world import rolllog as W

REAL_CODE = ['openfilter/filter_runtime/rolllog.py (RollLog: __init__, write, read, read_block, seek, seek_block, tell, '
             'refresh, close, write_head, new_logfile, scan_logfiles, prune_logfiles, refresh_logfiles) unmodified']
STUBS = ['file system under rolllog.py: rolllog.os / rolllog.open -> sim/fs.py (in-memory POSIX-like FS, CPython-like '
         'write buffering, unlink keeps open inodes readable, atomic rename)',
         'wall clock: rolllog.time / rolllog.datetime -> virtual clock set by the clock actor (advance, stand still, step back)']
ASSUMPTIONS = [
    'quick tier: every RollLog API call is atomic (writer, readers and the external deleter are interleaved between calls, '
    'which is what the statement quantifies over); thorough tier adds file-system-call granularity for writer + one reader',
    'a constructor that refuses to start with "newer log file(s) than now already exist" is a legal outcome, not a violation',
    'a party opened without head on a non-empty log, or after seek("end"), has no expectation until the first record it '
    'returns (the statement does not pin down "the end"); safety (torn) is still checked',
    'seek(<earlier tell>) defines the reader position as the literal (file, offset) that tell() returned',
    'exceptions the statement does not speak about are counted as observations (probes exc:*), never as violations',
    'completeness is demanded when a later record is returned (nothing that still exists on disk may have been jumped) and '
    'at the end of the history after the party has followed the log until read() returned None three times with refreshes',
    'power loss is not modelled; file names are compared as the code builds them (utc=True)',
    'doubtful case, counted (probes unknowable_backstep, doubtful_after_unknowable_backstep:*) instead of asserted: if every '
    'log file with a timestamp >= T has vanished (external deletion) before the writer is constructed and the clock then '
    'reads <= T, the writer has no trace of those files and creates files that sort before / reuse the names of the vanished '
    'ones; parties positioned by the vanished files (or holding a stale tell) then miss or mis-seek into the new files. From '
    'that point of a history on order / completeness / torn are not judged (overwrite, budget, newest-file still are)',
    'thorough tier, file-system granularity: writer and reader r0 are two tasks, every FS call is a yield point; exceptions '
    'escaping an API call there (FileNotFoundError out of scan_logfiles, JSONDecodeError on a partial line) are observations; '
    'violations carry signature gran=fs; the short_write fault (a write(2) that transfers part of its bytes) is a separate '
    'sub-scenario marked short_write=true',
]


class Spec:
    prop = 'C13'
    level = 'exploration'
    chunk = 64
    rule = ('a case is a seeded history of RollLog operations (write with given/clock timestamps, read, read_block, seek, '
            'tell, refresh, close+reopen, external delete, clock advance/same/back) over per-case knobs (mode, file_size, '
            'total_size, readers and their autorefresh, flush, clock resolution, which trouble kinds are enabled); it is '
            'non-trivial if at least one record was delivered to a reading party and the log rolled over at least once; '
            'distinct = distinct digests over every executed operation with its observed result (file, byte range)')
    real_code = REAL_CODE
    stubs = STUBS
    assumptions = ASSUMPTIONS

    def __init__(self, tier='quick'):
        self.tier = tier

    def budget(self, tier):
        return (250_000, 100) if tier == 'quick' else (1_500_000, 1500)

    def run_case(self, seed, replay=None):
        return W.run_case_c13(seed, replay, self.tier)

    def nontrivial(self, res):
        return bool(res.get('nontrivial'))

    def replay_payload(self, res):
        fsgran = bool((res.get('knobs') or {}).get('fsgran'))     # only scheduling draws are replayed from streams
        return {'history': res['history'], 'knobs': res['knobs'], 'streams': (res.get('streams') or {}) if fsgran else {}}

    def sample_of(self, res):
        return {'seed': res['seed'], 'knobs': res['knobs'], 'history_head': res['history'][:30],
                'n_ops': len(res['history']), 'probes': res.get('probes')}

    def human(self, res):
        return {'knobs': res['knobs'], 'history': res['history'], 'trace': res.get('trace'),
                'summary': res.get('summary'), 'probes': res.get('probes')}

    # -- structural reducers ------------------------------------------------------------------------------------------------

    def reducers(self, payload):
        hist = payload['history']
        n = len(hist)
        # drop the tail, then halves, then single operations
        for m in (n // 2, n - 1):
            if 0 < m < n:
                c = copy.deepcopy(payload)
                del c['history'][m:]
                yield c
        size = max(1, n // 4)
        while size >= 1:
            for i in range(0, n, size):
                c = copy.deepcopy(payload)
                del c['history'][i:i + size]
                if c['history']:
                    yield c
            if size == 1:
                break
            size //= 2
        # simpler operations
        for i, op in enumerate(hist):
            if op['op'] == 'write':
                if op.get('size', 0) > 3:
                    c = copy.deepcopy(payload)
                    c['history'][i]['size'] = 3
                    yield c
                for key in ('frac', 'ts'):
                    if op.get(key):
                        c = copy.deepcopy(payload)
                        c['history'][i].pop(key, None)
                        if key == 'ts':
                            c['history'][i].pop('d_us', None)
                            c['history'][i].pop('frac', None)
                        yield c
                if op.get('d_us', 1) > 1:
                    c = copy.deepcopy(payload)
                    c['history'][i]['d_us'] = 1
                    yield c
            elif op['op'] == 'read_block':
                c = copy.deepcopy(payload)
                c['history'][i]['op'] = 'read'
                yield c
            elif op['op'] == 'clock' and op.get('us', 1) > 1:
                c = copy.deepcopy(payload)
                c['history'][i]['us'] = 1
                yield c
            if op.get('r') not in (None, 'r0') and op['op'] != 'reopen':
                c = copy.deepcopy(payload)
                c['history'][i]['r'] = 'r0'
                yield c
        # simpler knobs
        k = payload['knobs']
        simple = {'mode': 'txt', 'total_size': 10 ** 9, 'flush': True, 'tick_us': 1000, 'file_size': 10}
        for key, val in simple.items():
            if k.get(key) != val:
                c = copy.deepcopy(payload)
                c['knobs'][key] = val
                yield c
        if len(k.get('readers', [])) > 1:
            used = {op.get('r') for op in hist}
            if 'r1' not in used:
                c = copy.deepcopy(payload)
                c['knobs']['readers'] = k['readers'][:1]
                yield c
        for key in ('fsgran', 'short_write'):
            if k.get(key):
                c = copy.deepcopy(payload)
                c['knobs'][key] = False
                c['streams'] = {}
                yield c
