#!/bin/sh
# usage: tools_seeded.sh <mutant dir with patch.diff> <PROP>[,PROP2] [cases]  -- apply to /repo, run the quick checks, undo.
d="$1"; props="$2"; cases="${3:-}"
if [ -n "$(git -C /repo status --porcelain --untracked-files=no)" ]; then echo "/repo has uncommitted changes"; exit 2; fi
git -C /repo apply "$d/patch.diff" || exit 2
out=$(mktemp -d /tmp/seedout_XXXX)
for p in $(echo "$props" | tr ',' ' '); do
  if [ -n "$cases" ]; then export VERIF_CASES="$cases"; fi
  VERIF_OUT="$out" timeout 1500 /verif/check "$p" quick 2>/dev/null | grep -v OpenLineage | grep -v "^KNOWN" | cut -c1-330 | head -6
done
git -C /repo checkout -- .
rm -rf "$out"
