#!/bin/sh
# usage: tools_seeded.sh <mutant dir with patch.diff> <PROP>[,PROP2] [cases]
# Runs the quick checks against a scratch copy of /repo's package with the seeded change applied (VERIF_REPO), so that
# /repo itself is never modified while other batches import from it; evidence/replays go to a scratch VERIF_OUT.
d="$1"; props="$2"; cases="${3:-}"
tmp=$(mktemp -d /tmp/seedrepo_XXXX)
cp -r /repo/openfilter "$tmp/openfilter"
if ! patch -s -p1 -d "$tmp" < "$d/patch.diff"; then echo "PATCH DOES NOT APPLY"; rm -rf "$tmp"; exit 2; fi
find "$tmp" -name __pycache__ -type d -prune -exec rm -rf {} + 2>/dev/null
for p in $(echo "$props" | tr ',' ' '); do
  if [ -n "$cases" ]; then export VERIF_CASES="$cases"; fi
  VERIF_REPO="$tmp" VERIF_OUT="$tmp/out" timeout 1500 /verif/check "$p" "${VERIF_SEEDED_TIER:-quick}" 2>/dev/null | grep -v OpenLineage | grep -v "^KNOWN" | cut -c1-330 | head -6
done
rm -rf "$tmp"
