"""Oracles over the recorded history of an MQ-world run. Each returns a list of violation records
{property, oracle, signature, message, step, vtime}; `signature` holds only scenario-shape fields so that one entry of
known_findings.json matches one failure mode."""

import json

from .mq import selected_topics, eph_classifier, EPOCH_NS

SYS_TOPICS = ('_filter', '_metrics')


def V(prop, oracle, message, step=None, vtime=None, causes=None, **sig):
    return {'property': prop, 'oracle': oracle, 'signature': dict(sig), 'message': message, 'step': step,
            'vtime': None if vtime is None else (vtime - EPOCH_NS) / 1e9, 'context': causes}


def _sources(sc, nid):
    return sc['nodes'][nid].get('sources') or []


def scenario_causes(sc):
    """Coarse classification of what a scenario contains (for signatures)."""
    c = set()
    for nid, spec in sc['nodes'].items():
        if spec.get('skip') or spec.get('defer_none'):
            c.add('skip')
        if spec.get('empty'):
            c.add('empty')
    for f in sc.get('faults') or []:
        c.add(f['kind'])
    if (sc.get('knobs', {}).get('net') or {}).get('drop_pub', (0, 1))[0]:
        c.add('drop_pub')
    if 'rcvhwm' in (sc.get('knobs', {}).get('net') or {}):
        c.add('hwm_small')
    return sorted(c)


class _BySrc(dict):
    """Frames of a delivered set per source ENTRY of the consumer (a consumer may be attached to one publisher twice, e.g.
    synchronized for one topic and ephemerally for another). Indexed by the entry dict itself (identity) or, when the
    publisher appears only once among the sources, by its node id."""

    def __init__(self, srcs):
        super().__init__()
        self.srcs = srcs
        for s in srcs:
            dict.__setitem__(self, id(s), [])

    def __getitem__(self, key):
        if isinstance(key, dict):
            return dict.__getitem__(self, id(key))
        for s in self.srcs:
            if s['from'] == key:
                return dict.__getitem__(self, id(s))
        raise KeyError(key)

    def names(self):
        return [(s['from'], dict.__getitem__(self, id(s))) for s in self.srcs]


def attribute_set(world, nid, desc):
    """Split a delivered frame set by source entry, plus unattributed frames (no provenance or foreign origin)."""
    sc = world.sc
    srcs = _sources(sc, nid)
    by_src = _BySrc(srcs)
    unattributed = []
    for topic, fd in desc.items():
        tok = fd['tok']
        cands = [s for s in srcs if s['from'] == fd['o']] if tok is not None else []
        if not cands:
            unattributed.append((topic, fd))
            continue
        pub = world.tok2pub.get(tok)
        s = cands[0]
        if len(cands) > 1 and pub is not None:
            # several entries for this publisher: the one whose subscription maps the published topic to this name
            for c in cands:
                if selected_topics(c.get('sub'), [pub[2]]).get(pub[2]) == topic:
                    s = c
                    break
        by_src[s].append((topic, fd, pub))
    return by_src, unattributed


def check_c01(world):
    """No mixed or partial frame sets at any filter with synchronized sources."""
    sc = world.sc
    out = []
    causes = scenario_causes(sc)
    stats = world.ostats
    for e in world.events:
        if e[0] != 'in':
            continue
        _, step, now, nid, inc, k, claimed_mid, desc = e
        srcs = _sources(sc, nid)
        sync = [s for s in srcs if not s.get('eph')]
        if not sync:
            continue
        balance = bool(sc['nodes'][nid].get('sources_balance'))
        by_src, unattributed = attribute_set(world, nid, desc)
        stats['c01_sets'] += 1
        # (a) one id across all synchronized sources
        mids = {}
        for s in sync:
            for topic, fd, pub in by_src[s]:
                if pub is None:
                    out.append(V('C01', 'phantom_frame', f'{nid}#{inc} call {k}: frame tok={fd["tok"]} on {topic!r} '
                                 f'was never published', step, now, shape=sc['shape']))
                    continue
                mids.setdefault(pub[1], []).append((s['from'], topic, pub[0]))
        if len(mids) > 1:
            out.append(V('C01', 'mixed_ids',
                         f'{nid}#{inc} call {k} was handed frames of different message ids: ' +
                         '; '.join(f'id {m}: ' + ', '.join(f'{t} from {o}' for _, t, o in v) for m, v in sorted(mids.items())),
                         step, now, shape=sc['shape'], causes=causes))
            continue
        if not mids:
            stats['c01_sets_unattributable'] += 1
            continue
        mid = next(iter(mids))
        stats['c01_sets_multi_source'] += len(sync) > 1
        # (b) exact topic set per synchronized source
        delivering = [s for s in sync if by_src[s]]
        for s in sync:
            got = by_src[s]
            up = s['from']
            if balance and not got:
                continue
            if balance and len(delivering) > 1:
                out.append(V('C01', 'balanced_mixed_sources', f'{nid}#{inc} call {k}: balanced set combines sources '
                             f'{[d["from"] for d in delivering]}', step, now, shape=sc['shape']))
                break
            if got:
                owners = {g[2][0] for g in got if g[2] is not None}
                if len(owners) > 1:
                    # narrow relaxation (DESIGN.md C01): the source was restarted and both incarnations published under
                    # this id; the statement speaks of ids, not incarnations - counted, not flagged
                    stats['c01_cross_incarnation_sets'] += 1
                    continue
                owner = got[0][2][0]
                rec = world.pubs.get((owner, mid))
            else:
                rec = None
                for p in world.procs.get(up, []):
                    rec = world.pubs.get((p.key, mid))
                    if rec is not None:
                        break
                if rec is None:
                    out.append(V('C01', 'missing_source',
                                 f'{nid}#{inc} call {k}: set for id {mid} delivered although synchronized source {up} '
                                 f'never published that id', step, now, shape=sc['shape'], causes=causes))
                    continue
            pub_topics = rec['topics'] or []
            sel = selected_topics(s.get('sub'), pub_topics)
            expected = set(sel.values())
            got_names = {t for t, _, _ in got}
            for t, fd in unattributed:
                if t in expected and fd['tok'] is None:
                    got_names.add(t)      # frames without provenance (system topics, data-less frames): by name
            if got_names != expected:
                kind = 'partial_set' if got_names < expected else 'extra_topics'
                out.append(V('C01', kind,
                             f'{nid}#{inc} call {k}: from {up} (id {mid}, published topics {pub_topics}, subscription '
                             f'{s.get("sub")!r}) expected {sorted(expected)} got {sorted(got_names)}',
                             step, now, shape=sc['shape'], causes=causes))
        # (c) a rejoined set descends from one original frame per root source
        roots = {}
        for s in sync:
            for topic, fd, pub in by_src[s]:
                for r in fd['r']:
                    a, b, c = r.rsplit('.', 2)
                    roots.setdefault((a, b), set()).add(int(c))
        for (rn, ri), seqs in roots.items():
            if len(seqs) > 1:
                out.append(V('C01', 'rejoin_roots',
                             f'{nid}#{inc} call {k}: rejoined set descends from different original frames of {rn}#{ri}: '
                             f'{sorted(seqs)} (id {mid})', step, now, shape=sc['shape'], causes=causes))
                break
    return out


def _img_equal(world, delivered_img, wire):
    """delivered_img: (kind, bytes, fmt, shape, ro); wire: (xtra, parts) as published."""
    xtra, parts = wire
    if not xtra or 'img' not in xtra:
        return delivered_img is None, 'published without image'
    if delivered_img is None:
        return False, 'image lost'
    h, w, fmt, enc = xtra['img']
    kind, b, dfmt, shape, ro = delivered_img
    if dfmt != fmt or tuple(shape[:2]) != (h, w):
        return False, f'declared {(h, w, fmt)} delivered {(tuple(shape), dfmt)}'
    wire_bytes = bytes(parts[0])
    if enc == 'jpg':
        if kind == 'jpg':
            return b == wire_bytes, 'jpg bytes differ'
        import cv2
        import numpy as np
        dec = cv2.imdecode(np.frombuffer(wire_bytes, np.uint8), cv2.IMREAD_COLOR if fmt != 'GRAY' else 0)
        return dec is not None and dec.tobytes() == b, 'decoded jpg differs'
    if kind != 'raw':
        return False, 'raw image delivered as jpg'
    return b == wire_bytes, 'raw bytes differ'


def check_c02(world):
    """At most once, in order, unaltered, right names, nothing unsubscribed."""
    sc = world.sc
    out = []
    causes = scenario_causes(sc)
    stats = world.ostats
    last_mid = {}        # (nid, inc, source) -> last delivered mid
    seen_pub = {}        # (nid, source) -> {(owner, mid)}
    last_n = {}          # (nid, inc, origin node, origin inc) -> last emit index n
    prev_owner = {}
    for e in world.events:
        if e[0] != 'in':
            continue
        _, step, now, nid, inc, k, claimed_mid, desc = e
        srcs = _sources(sc, nid)
        by_src, unattributed = attribute_set(world, nid, desc)
        for s in srcs:
            up = s['from']
            got = by_src[s]
            if not got:
                continue
            eph = s.get('eph', 0)
            pubs_here = {p[:2] for _, _, p in got if p is not None}
            if len({m for _, m in pubs_here}) == 1 and len(pubs_here) > 1:
                # one id in this call, published by two incarnations of the source (parts of the old one's set were
                # still buffered when the restarted one published under the id its consumers asked for): the id is
                # delivered once - the same narrow relaxation as C01's, counted
                stats['c02_cross_incarnation_sets'] += 1
                pubs_here = {max(pubs_here)}
            for owner, mid in sorted(pubs_here):
                stats['c02_deliveries'] += 1
                if not eph:
                    key = (nid, inc, up)
                    prev = last_mid.get(key)
                    if prev is not None and mid <= prev:
                        # ids never go back at a consumer, also across restarts of the publisher: a restarted publisher is
                        # fast-forwarded by the consumer's requests and anything older is discarded by the receiver
                        same = owner == prev_owner.get(key)
                        out.append(V('C02', ('order' if mid < prev else 'duplicate_id') + ('' if same else '_across_restart'),
                                     f'{nid}#{inc} call {k}: id {mid} from {owner} delivered after id {prev} from '
                                     f'{prev_owner.get(key)}', step, now, shape=sc['shape'], causes=causes))
                    last_mid[key] = mid
                    prev_owner[key] = owner
                    sp = seen_pub.setdefault((nid, up), set())
                    if (owner, mid) in sp:
                        out.append(V('C02', 'delivered_twice',
                                     f'{nid}#{inc} call {k}: publish event ({owner}, id {mid}) delivered a second time '
                                     f'to consumer {nid}', step, now, shape=sc['shape'], causes=causes))
                    sp.add((owner, mid))
            for topic, fd, pub in got:
                if pub is None:
                    continue
                owner, mid, ptopic = pub
                # emit order per origin incarnation
                if not eph:
                    nk = (nid, inc, fd['o'], fd['i'], ptopic)
                    pn = last_n.get(nk)
                    if pn is not None and fd['n'] is not None and fd['n'] <= pn:
                        out.append(V('C02', 'origin_order',
                                     f'{nid}#{inc} call {k}: frame n={fd["n"]} of {fd["o"]}#{fd["i"]} ({ptopic}) after '
                                     f'n={pn}', step, now, shape=sc['shape'], causes=causes))
                    last_n[nk] = fd['n']
                # name mapping and selection
                sel = selected_topics(s.get('sub'), [ptopic])
                if ptopic not in sel:
                    out.append(V('C02', 'unsubscribed_delivered',
                                 f'{nid}#{inc} call {k}: topic {ptopic!r} of {up} delivered as {topic!r} although '
                                 f'subscription {s.get("sub")!r} does not select it', step, now, shape=sc['shape']))
                elif sel[ptopic] != topic:
                    out.append(V('C02', 'wrong_name',
                                 f'{nid}#{inc} call {k}: topic {ptopic!r} of {up} delivered as {topic!r}, subscription maps '
                                 f'it to {sel[ptopic]!r}', step, now, shape=sc['shape']))
                # content
                rec = world.pubs.get((owner, mid))
                wire = rec['msgs'].get(ptopic) if rec else None
                if wire is None:
                    continue
                xtra, parts = wire
                stats['c02_frames_compared'] += 1
                dataidx = 1 if xtra else 0
                wire_data = json.loads(parts[dataidx]) if len(parts) > dataidx else {}
                if wire_data != fd['data']:
                    out.append(V('C02', 'data_altered',
                                 f'{nid}#{inc} call {k}: data of {ptopic!r} (id {mid}) differs from what was published',
                                 step, now, shape=sc['shape']))
                ok, why = _img_equal(world, fd['img'], wire)
                if not ok:
                    out.append(V('C02', 'image_altered',
                                 f'{nid}#{inc} call {k}: image of {ptopic!r} (id {mid}): {why}', step, now,
                                 shape=sc['shape']))
                # send side: wire equals what the filter emitted
                em = world.emits.get(fd['tok'])
                if em is not None and em[3] != wire_data:
                    out.append(V('C02', 'data_altered_on_send', f'emit tok={fd["tok"]} data differs on the wire',
                                 step, now, shape=sc['shape']))
                if em is not None and em[4] is not None and xtra and 'img' in xtra:
                    ekind, ebytes, efmt, eshape = em[4]
                    enc = xtra['img'][3]
                    if ekind == enc and bytes(parts[0]) != ebytes:
                        # same encoding on the wire as emitted (raw pixels in logical row-major order, or the jpg the frame
                        # already carried): must be byte-identical
                        out.append(V('C02', 'image_altered_on_send',
                                     f'{nid}#{inc} call {k}: {enc} image of {ptopic!r} (id {mid}) on the wire differs from the '
                                     f'image the publisher emitted', step, now, shape=sc['shape']))
        for topic, fd in unattributed:
            if fd['tok'] is None and topic in SYS_TOPICS:
                # system hidden topics may only show up through '*' or an explicit subscription
                if not any(s.get('sub') == '*' or (isinstance(s.get('sub'), list) and
                                                   any(b == topic for a, b in s['sub'])) for s in srcs):
                    out.append(V('C02', 'hidden_delivered', f'{nid}#{inc} call {k}: hidden topic {topic!r} delivered '
                                 f'without being asked for', step, now, shape=sc['shape']))
            elif fd['tok'] is not None:
                out.append(V('C02', 'foreign_frame', f'{nid}#{inc} call {k}: frame on {topic!r} originates from '
                             f'{fd["o"]} which is not a source of {nid}', step, now, shape=sc['shape']))
    return out



def check_c03(world):
    """Per-filter input sequence == functional reference model; deferred callables evaluated only when sent."""
    from . import model
    sc = world.sc
    out = []
    stats = world.ostats
    exp_inputs, exp_pub = model.evaluate(sc)
    conclusive = world.stop_reason in ('settled', 'quiescent')
    for nid, exp in exp_inputs.items():
        obs = model.observed_inputs(world, nid)
        stats['c03_sequences'] += 1
        stats['c03_sets_expected'] += len(exp)
        n = min(len(obs), len(exp))
        bad = None
        for i in range(n):
            if obs[i] != exp[i]:
                bad = i
                break
        if bad is not None:
            out.append(V('C03', 'sequence_mismatch',
                         f'{nid}: process() call {bad} got {_fmt_set(obs[bad])} but the composition of the upstream '
                         f'process functions yields {_fmt_set(exp[bad])} (expected {len(exp)} sets, observed {len(obs)})',
                         None, None, shape=sc['shape']))
            continue
        if len(obs) > len(exp):
            out.append(V('C03', 'extra_sets', f'{nid}: observed {len(obs)} sets, model has {len(exp)}; first extra: '
                         f'{_fmt_set(obs[len(exp)])}', None, None, shape=sc['shape']))
        elif len(obs) < len(exp):
            if conclusive:
                out.append(V('C03', 'frames_lost',
                             f'{nid}: received only {len(obs)} of {len(exp)} sets and the pipeline went quiet '
                             f'({world.stop_reason}); next expected: {_fmt_set(exp[len(obs)])}', None, None,
                             shape=sc['shape']))
            else:
                stats['c03_inconclusive'] += 1
    # deferred results: evaluated once, at the moment of sending, never without a following publish or None
    made = {}
    calls = {}
    pubs_at = {}
    for e in world.events:
        if e[0] == 'deferred_made':
            made[(e[3], e[4], e[5])] = e[1]
        elif e[0] == 'deferred_call':
            calls.setdefault((e[3], e[4], e[5]), []).append((e[1], e[2]))
        elif e[0] == 'pub':
            pubs_at.setdefault(e[3], []).append((e[1], e[2]))
    last_made = {}
    for (nid, inc, k) in made:
        last_made[(nid, inc)] = max(last_made.get((nid, inc), -1), k)
    for key, mstep in made.items():
        nid, inc, k = key
        cs = calls.get(key, [])
        stats['c03_deferred'] += 1
        if len(cs) > 1:
            out.append(V('C03', 'deferred_twice', f'{nid}: deferred result of call {k} evaluated {len(cs)} times',
                         cs[1][0], cs[1][1], shape=sc['shape']))
        elif not cs:
            if k != last_made[(nid, inc)] and sc['nodes'][nid].get('has_output', True) and conclusive:
                out.append(V('C03', 'deferred_never', f'{nid}: deferred result of call {k} never evaluated although '
                             f'later results were', None, None, shape=sc['shape']))
        else:
            step, now = cs[0]
            spec = sc['nodes'][nid]
            if not spec.get('has_output', True):
                continue
            nxt = [p for p in pubs_at.get(f'{nid}#{inc}', []) if p[0] > step]
            kkey = None
            if nxt and nxt[0][1] != now:
                # the callable may legitimately have returned None (defer_none): then no publish belongs to it
                if not spec.get('defer_none'):
                    out.append(V('C03', 'deferred_early', f'{nid}: deferred result of call {k} evaluated at '
                                 f'{(now - EPOCH_NS) / 1e9:.6f}s but published at {(nxt[0][1] - EPOCH_NS) / 1e9:.6f}s',
                                 step, now, shape=sc['shape']))
    return out


def _fmt_set(s):
    return '{' + ', '.join(f'{t}: {o}#{n} {list(r)}' for t, (o, n, r) in sorted(s.items())) + '}'


def check_c07(world):
    """Balanced outputs: each id leaves through exactly one output; balanced rejoin: single-source sets, strictly
    increasing ids, no frame twice."""
    sc = world.sc
    out = []
    stats = world.ostats
    for (owner, mid), rec in world.pubs.items():
        nid = owner.split('#')[0]
        if not sc['nodes'].get(nid, {}).get('outputs_balance'):
            continue
        stats['c07_balanced_publishes'] += 1
        if len(rec['socks']) != 1:
            out.append(V('C07', 'multi_branch', f'{owner}: id {mid} left through {len(rec["socks"])} outputs '
                         f'(sockets {rec["socks"]})', rec['step0'], rec['t0'], shape=sc['shape']))
    # a balanced-sources consumer that dies from an internal error of the receive path (KeyError from the poller,
    # 'duplicate topic' RuntimeError when two branches' frames were merged) has mixed its sources
    for (nid, inc), (how, text) in world.outcomes.items():
        if how == 'raise' and sc['nodes'][nid].get('sources_balance') and not sc['nodes'][nid].get('inject'):
            out.append(V('C07', 'rejoin_crashed', f'{nid}#{inc}: the balanced rejoin left run() with {text}', None, None,
                         shape=sc['shape']))
    last = {}
    seen = {}
    for e in world.events:
        if e[0] != 'in':
            continue
        _, step, now, nid, inc, k, claimed, desc = e
        if not sc['nodes'][nid].get('sources_balance'):
            continue
        stats['c07_rejoin_sets'] += 1
        by_src, un = attribute_set(world, nid, desc)
        srcs = [name for name, lst in by_src.names() if lst]
        if len(srcs) > 1:
            out.append(V('C07', 'mixed_sources', f'{nid}#{inc} call {k}: set combines frames of {srcs}', step, now,
                         shape=sc['shape']))
        mids = set()
        roots = set()
        for s in srcs:
            for topic, fd, pub in by_src[s]:
                if pub is not None:
                    mids.add(pub[1])
                roots.update(fd['r'])
                tk = (nid, fd['tok'])
                if tk in seen:
                    out.append(V('C07', 'frame_twice', f'{nid}#{inc} call {k}: frame tok={fd["tok"]} of {s} delivered twice',
                                 step, now, shape=sc['shape']))
                seen[tk] = 1
        if len(mids) > 1:
            out.append(V('C07', 'mixed_ids', f'{nid}#{inc} call {k}: ids {sorted(mids)} in one set', step, now,
                         shape=sc['shape']))
        if len(mids) == 1:
            mid = next(iter(mids))
            prev = last.get((nid, inc))
            if prev is not None and mid <= prev:
                out.append(V('C07', 'order', f'{nid}#{inc} call {k}: id {mid} delivered after id {prev}', step, now,
                             shape=sc['shape']))
            last[(nid, inc)] = mid
    return out


def check_c04(world):
    """While a synchronized consumer c sends no requests to its publisher p (it stopped taking frames), p publishes at
    most (requests of c it still dequeues) + 1 further frames, single digits in absolute terms, until c has been silent
    for the connection timeout (what a publisher does after that when c is a *required* output belongs to C06)."""
    sc = world.sc
    out = []
    stats = world.ostats
    conn_to = (sc.get('knobs') or {}).get('ZMQ_CONN_TIMEOUT', 5000) * 1_000_000
    end = world.final_now
    GAP = 1_000_000_000
    pushes = {}    # (c key, p nid) -> [t]
    for r in world.reqs:
        step, now, ckey, sid, mid, eph, new, how, pnid, entry_eph = r
        # whether the channel is synchronized is taken from the configuration, not from what the request claims
        if entry_eph or pnid is None or mid is None or mid < -1:
            continue
        pushes.setdefault((ckey, pnid), []).append(now)
    deqs = {}      # (p key, c key) -> [t]
    handshake = (sc.get('knobs') or {}).get('ZMQ_CONN_HANDSHAKE', True)
    for e in world.events:
        # a request flagged 'new' does not register the client while the handshake is on
        if e[0] == 'pullrecv' and not e[9] and e[5] is not None and e[5] >= -1 and not (e[7] and handshake):
            deqs.setdefault((e[3], e[4]), []).append(e[2])
    pubs_by = {}   # p key -> [(t0, mid)]
    for (owner, mid), rec in world.pubs.items():
        pubs_by.setdefault(owner, []).append((rec['t0'], mid))
    for (ckey, pnid), ts in pushes.items():
        cnid = ckey.split('#')[0]
        cspec = sc['nodes'][cnid]
        src = next((s for s in cspec.get('sources') or [] if s['from'] == pnid), None)
        if src is None or src.get('eph'):
            continue
        pproc = world.procs[pnid][-1]
        pkey = pproc.key
        req = sc['nodes'][pnid].get('outputs_required') or []
        if isinstance(req, str):
            req = [x.strip() for x in req.split(',')]
        required = cnid in req
        ts = sorted(ts)
        bounds = ts + [end]
        for a, b in zip(bounds, bounds[1:]):
            if b - a <= GAP:
                continue
            # p is constrained by c from the moment it dequeues c's last request (c is then in p's client table with
            # its mark set) until c has been silent for the connection timeout
            a0 = min((t for t in deqs.get((pkey, ckey), []) if t >= a), default=None)
            if a0 is None or a0 >= b:
                continue
            stats['c04_intervals'] += 1
            a = a0
            w_end = min(b, a + conn_to)
            hi = w_end       # the statement lets p go on once c has been silent for the connection timeout
            n_pub = sum(1 for (t, m) in pubs_by.get(pkey, []) if a < t < hi)
            n_deq = sum(1 for t in deqs.get((pkey, ckey), []) if a < t < hi)
            stats['c04_pubs_in_stall_max'] = max(stats['c04_pubs_in_stall_max'], n_pub)
            if b - a > 10 * GAP:
                stats['c04_long_stalls'] += 1
            if n_pub > n_deq + 1 or n_pub > 9:
                out.append(V('C04', 'unbounded_publish',
                             f'{pkey} published {n_pub} frames while its synchronized consumer {ckey} sent no request '
                             f'for {(b - a) / 1e9:.1f}s (window {(hi - a) / 1e9:.1f}s, requests still dequeued {n_deq}, '
                             f'required={required})', None, a, shape=sc['shape'], required=required))
            # "each publisher feeding it": the publishers further upstream, which reach c through synchronized relays,
            # are held back as well - every relay in between holds a bounded number of frames (one it processes, one
            # it waits to send, those answering requests still in flight)
            depth = 0
            cur = pnid
            lo = a
            while True:
                ups = [s2['from'] for s2 in sc['nodes'][cur].get('sources') or [] if not s2.get('eph')]
                if len(ups) != 1 or sc['nodes'][ups[0]].get('outputs_balance'):
                    break
                child_key = world.procs[cur][-1].key
                cur = ups[0]
                depth += 1
                ukey = world.procs[cur][-1].key
                # the relay holds its publisher back only once that publisher knows it (has dequeued a request of it)
                known = min(deqs.get((ukey, child_key), []), default=None)
                if known is None or known >= hi:
                    break
                lo = max(lo, known)
                # ... and only until the relay itself (blocked in its send, it asks for nothing) has been silent towards
                # that publisher for the connection timeout - which is earlier than the stalled consumer's own time-out
                last = max((t for t in deqs.get((ukey, child_key), []) if t < hi), default=known)
                hi = min(hi, last + conn_to)
                n_up = sum(1 for (t, m) in pubs_by.get(ukey, []) if lo < t < hi)
                stats['c04_upstream_pubs_in_stall_max'] = max(stats['c04_upstream_pubs_in_stall_max'], n_up)
                if n_up > 9 * (depth + 1):     # requests in flight on slow links add to what each relay holds; still fixed
                    out.append(V('C04', 'unbounded_publish_upstream',
                                 f'{ukey} ({depth} relay(s) above {pkey}) published {n_up} frames while the synchronized '
                                 f'consumer {ckey} behind the relay(s) sent no request for {(b - a) / 1e9:.1f}s '
                                 f'(window {(hi - a) / 1e9:.1f}s)', None, a, shape=sc['shape'], depth=depth))
                    break
    return out


def backbone_bound_ns(sc):
    """G: upper bound for the inter-arrival gap at any synchronized node of a fault-free backbone (DESIGN.md C05)."""
    knobs = sc.get('knobs') or {}
    poll = knobs.get('ZMQ_POLL_TIMEOUT', 100) * 1_000_000
    lat = (knobs.get('net') or {}).get('lat_max_ns', 2_000_000)
    procs = 0
    period = 0
    hops = 0
    for nid, spec in sc['nodes'].items():
        if spec.get('side'):
            continue
        if any(s.get('eph') for s in spec.get('sources') or []) and not any(not s.get('eph') for s in spec.get('sources') or []):
            continue       # purely ephemeral consumers are not part of the backbone
        hops += 1
        procs += max(spec.get('proc_ns') or [0])
        if spec.get('src'):
            period = max(period, spec.get('period_ns', 0))
    return period + procs + (hops + 2) * (poll + 2 * lat) + 100_000_000


def check_c05(world):
    """Ephemeral listeners never hold up or alter the synchronized stream."""
    from . import model
    sc = world.sc
    out = []
    stats = world.ostats
    nodes = sc['nodes']
    # (a) backbone sequences equal the reference model (ephemeral contributions filtered out)
    exp_inputs, _ = model.evaluate(sc, only_sync=True)
    conclusive = world.stop_reason in ('settled', 'quiescent')
    for nid, exp in exp_inputs.items():
        is_eph = eph_classifier(nodes[nid])
        has_eph = any(s.get('eph') for s in nodes[nid].get('sources') or [])
        obs = []
        for e in world.events:
            if e[0] == 'in' and e[3] == nid and e[4] == 0:
                want = exp[len(obs)] if len(obs) < len(exp) else {}
                # frames of ephemeral sources are not part of the synchronized stream: with provenance they are
                # recognised by their origin, without (data-less / system topics) by not being expected by name
                obs.append({t: (fd['o'], fd['n'], tuple(fd['r'])) if fd['tok'] is not None else (None, None, ())
                            for t, fd in e[7].items()
                            if (fd['tok'] is not None and not is_eph(t, fd['o'])) or
                               (fd['tok'] is None and (not has_eph or t in want))})
        stats['c05_backbone_sequences'] += 1
        n = min(len(obs), len(exp))
        bad = next((i for i in range(n) if obs[i] != exp[i]), None)
        strip = lambda fs: {t: (o, r) for t, (o, nn, r) in fs.items()}     # emit counters shift when a head is lost upstream
        obs_k, exp_k = [strip(x) for x in obs], [strip(x) for x in exp]
        head = None
        if len(exp) > len(obs) == 0 and conclusive:
            head = len(exp)
        elif bad == 0 and obs:
            # the stream does not start with the first frame: how many leading sets are missing (0 = cannot tell, e.g. a
            # join whose independent sources were realigned by id after the loss)
            head = exp_k.index(obs_k[0]) if obs_k[0] in exp_k else 0
        if head is not None:
            k0 = head
            if True:
                # only the head of the stream is missing; everything from set k0 on is exact
                twice = any(len({bool(x.get('eph')) for x in sp.get('sources') or [] if x['from'] == y['from']}) > 1
                            for sp in nodes.values() for y in sp.get('sources') or [])
                out.append(V('C05', 'backbone_head_lost', f'{nid}: the synchronized stream does not start with the first '
                             f'frame ({k0 or "?"} leading set(s) missing: starts with {_fmt_set(obs[0]) if obs else "nothing"}, '
                             f'expected {_fmt_set(exp[0])})', None, None, shape=sc['shape'], twice_attached=twice))
                continue
        if bad is not None:
            out.append(V('C05', 'backbone_altered', f'{nid}: synchronized input {bad} is {_fmt_set(obs[bad])}, the '
                         f'pipeline without ephemeral listeners yields {_fmt_set(exp[bad])}', None, None,
                         shape=sc['shape']))
        elif len(obs) != len(exp) and (conclusive or len(obs) > len(exp)):
            out.append(V('C05', 'backbone_count', f'{nid}: {len(obs)} synchronized sets delivered, expected {len(exp)} '
                         f'(stop: {world.stop_reason})', None, None, shape=sc['shape']))
    # a lost head at a twice-attached consumer (open known finding) makes that consumer request a newer id, which its
    # other upstream branches obey by skipping ids: such follow-on alterations are marked as consequences
    if any(v['oracle'] == 'backbone_head_lost' and v['signature'].get('twice_attached') for v in out):
        for v in out:
            if v['oracle'] in ('backbone_altered', 'backbone_count'):
                v['signature']['consequence_of_head_loss'] = True
    # (b) never delays: inter-arrival gaps at synchronized nodes stay below G
    G = backbone_bound_ns(sc)
    stats['c05_G_ms_max'] = max(stats['c05_G_ms_max'], G // 1_000_000)
    last = {}
    first_in = {}
    for e in world.events:
        if e[0] == 'in' and e[3] in exp_inputs and e[3] not in first_in:
            first_in[e[3]] = e[2]
    # steady state: every node of the backbone has been reached once (connection establishment is not the
    # ephemeral listeners' doing and is not bounded by G)
    t_steady = max(first_in.values()) if len(first_in) == len(exp_inputs) and first_in else None
    for e in world.events:
        if t_steady is None:
            break
        if e[0] == 'in' and e[3] in exp_inputs and e[2] >= t_steady:
            key = (e[3], e[4])
            prev = last.get(key)
            if prev is not None:
                gap = e[2] - prev
                if gap * 100 // G > stats['c05_gap_pct_of_G_max']:
                    stats['c05_gap_pct_of_G_max'] = gap * 100 // G
                if gap > G:
                    out.append(V('C05', 'backbone_delayed', f'{e[3]}: {gap / 1e9:.3f}s between synchronized sets '
                                 f'{e[5] - 1} and {e[5]}, bound {G / 1e9:.3f}s', e[1], e[2], shape=sc['shape']))
                    break
            last[key] = e[2]
    # (c) a '??' listener owns no request socket and sends nothing
    for nid, spec in nodes.items():
        srcs = spec.get('sources') or []
        if srcs and all(s.get('eph') == 2 for s in srcs):
            stats['c05_doubly_ephemeral_nodes'] += 1
            for p in world.procs.get(nid, []):
                for s in world.net.sockets:
                    if s.owner is p and s.type == 8:
                        out.append(V('C05', 'doubly_ephemeral_request_socket', f'{p.key} owns a PUSH socket', None, None,
                                     shape=sc['shape']))
                for r in world.reqs:
                    if r[2] == p.key:
                        out.append(V('C05', 'doubly_ephemeral_traffic', f'{p.key} sent flow-control traffic (mid '
                                     f'{r[4]})', r[0], r[1], shape=sc['shape']))
                        break
    # (d) ephemeral sets are complete for their subscription and ids never decrease
    last_mid = {}
    for e in world.events:
        if e[0] != 'in':
            continue
        _, step, now, nid, inc, k, claimed, desc = e
        srcs = nodes[nid].get('sources') or []
        if not any(s.get('eph') for s in srcs):
            continue
        by_src, un = attribute_set(world, nid, desc)
        for s in srcs:
            if not s.get('eph'):
                continue
            got = by_src[s]
            if not got:
                continue
            stats['c05_ephemeral_sets'] += 1
            evs = {p[:2] for _, _, p in got if p is not None}
            if len(evs) > 1:
                out.append(V('C05', 'ephemeral_mixed', f'{nid}#{inc} call {k}: ephemeral set from {s["from"]} combines '
                             f'publish events {sorted(evs)}', step, now, shape=sc['shape']))
                continue
            if not evs:
                continue
            owner, mid = next(iter(evs))
            rec = world.pubs.get((owner, mid))
            sel = selected_topics(s.get('sub'), rec['topics'] or [])
            expected = set(sel.values())
            names = {t for t, _, _ in got} | {t for t, fd in un if t in expected and fd['tok'] is None}
            if names != expected:
                out.append(V('C05', 'ephemeral_incomplete', f'{nid}#{inc} call {k}: from {s["from"]} (id {mid}, topics '
                             f'{rec["topics"]}, subscription {s.get("sub")!r}) expected {sorted(expected)} got '
                             f'{sorted(names)}', step, now, shape=sc['shape']))
            key = (nid, inc, s['from'], owner)
            prev = last_mid.get(key)
            if prev is not None and mid < prev:
                out.append(V('C05', 'ephemeral_order', f'{nid}#{inc} call {k}: id {mid} from {owner} after id {prev}',
                             step, now, shape=sc['shape']))
            last_mid[key] = mid
    return out


def heal_bound_ns(sc):
    """H: progress bound after the last fault (DESIGN.md C06)."""
    knobs = sc.get('knobs') or {}
    poll = knobs.get('ZMQ_POLL_TIMEOUT', 100) * 1_000_000
    ct = knobs.get('ZMQ_CONN_TIMEOUT', 5000) * 1_000_000
    net = knobs.get('net') or {}
    lat = net.get('lat_max_ns', 2_000_000)
    conn = net.get('conn_max_ns', 5_000_000)
    procs = sum(max(spec.get('proc_ns') or [0]) for spec in sc['nodes'].values() if not spec.get('side'))
    period = max([spec.get('period_ns', 0) for spec in sc['nodes'].values() if spec.get('src')] or [0])
    hops = sum(1 for spec in sc['nodes'].values() if not spec.get('side'))
    start = max([spec.get('start_delay_ns', 0) for spec in sc['nodes'].values()] or [0])
    return ct + 100_000_000 + conn + (hops + 3) * (poll + 2 * lat) + 2 * procs + period + 2_000_000_000, start


def fault_end_ns(world):
    """Virtual time at which the last injected fault was over (restart done / stall over / victim dead)."""
    t = None
    for e in world.events:
        if e[0] == 'fault':
            if e[3] == 'stall':
                te = e[2] + e[5]
            else:
                te = e[2]
            t = te if t is None else max(t, te)
    return t


def check_c06(world):
    """No deadlock under a fair schedule; progress at every live synchronized node within H after the last fault;
    ordering still holds; a publisher whose required output is missing waits for it."""
    sc = world.sc
    out = []
    stats = world.ostats
    nodes = sc['nodes']
    H, start = heal_bound_ns(sc)
    end = world.final_now
    t_f = fault_end_ns(world)
    sync_nodes = [n for n in sc['order'] if any(not s.get('eph') for s in nodes[n].get('sources') or [])
                  and not nodes[n].get('side')]
    ins = {}
    for e in world.events:
        if e[0] == 'in':
            ins.setdefault(e[3], []).append(e[2])
    # which faults actually happened (a planned kill may find its victim not started yet)
    planned = sc.get('faults') or []
    happened = [e for e in world.events if e[0] == 'fault']
    permanently_dead = set()
    for f in planned:
        if f['kind'] == 'kill' and f.get('restart_after_ns') is None:
            permanently_dead.add(f['node'])
    cls = sc.get('fault_class', 'none')
    if t_f is None:
        t_ref = EPOCH_NS + start
    else:
        t_ref = t_f
        stats[f'c06_class_{cls}'] += 1
    # how often does a node get a frame at all? (skip rules of a chain compose; a node that the fault-free model never
    # reaches cannot be expected to progress, a thinly served one gets proportionally more time)
    from . import model
    msc = dict(sc)
    msc['nodes'] = {n: dict(s) for n, s in nodes.items()}
    NF = 120
    for n, s in msc['nodes'].items():
        if s.get('src'):
            s['n_frames'] = NF
    try:
        exp_inputs, _ = model.evaluate(msc)
    except Exception:
        exp_inputs = {}
    try:
        exp_all, _ = model.evaluate(msc, only_sync=False)      # ephemeral sources taken as if they passed every frame
    except Exception:
        exp_all = {}
    period = max([s.get('period_ns', 0) for s in nodes.values() if s.get('src')] or [0])

    def _req_of(p):
        req = nodes[p].get('outputs_required') or []
        return [x.strip() for x in req.split(',')] if isinstance(req, str) else list(req)
    # the configuration of the open twice-attached finding (DESIGN.md 12.2): a filter attached to ONE publisher both
    # synchronized and with '?', and named in that publisher's outputs_required
    twice_req = any(len({bool(x.get('eph')) for x in sp.get('sources') or [] if x['from'] == y['from']}) > 1
                    and n2 in _req_of(y['from'])
                    for n2, sp in nodes.items() for y in sp.get('sources') or [])
    allow = {}
    for n in sync_nodes:
        if n not in exp_inputs:
            # fed (directly or not) by a filter whose own sources are all ephemeral: outside the synchronized model, but a
            # synchronized consumer all the same - frames must keep coming (generously thinned: skip rules, side pace)
            # - unless the skip rules along the way compose to "never" (e.g. odd ids dropped, even ids deferred to None)
            cnt = len(exp_all.get(n, ())) if n in exp_all else NF
            allow[n] = None if cnt == 0 else H + max(8, NF // cnt) * period
            continue
        cnt = len(exp_inputs.get(n, ()))
        allow[n] = None if cnt == 0 else H + (NF // cnt) * period
    sync_nodes = [n for n in sync_nodes if allow[n] is not None]
    if end < t_ref + max([allow[n] for n in sync_nodes] or [H]):
        stats['c06_inconclusive'] += 1
    else:
        for n in sync_nodes:
            if n in permanently_dead:
                continue
            if world.live_proc(n) is None:
                continue
            # a node downstream of a permanently dead required node cannot be expected to progress; the generator only
            # lets non-required sinks die for good, so everything else must move
            Hn = allow[n]
            got = [t for t in ins.get(n, []) if t_ref < t <= t_ref + Hn]
            stats['c06_progress_checks'] += 1
            if not got:
                last = max([t for t in ins.get(n, []) if t <= t_ref], default=None)
                out.append(V('C06', 'no_progress',
                             f'{n}: no new frame within {Hn / 1e9:.2f}s after the last fault ended at '
                             f'{(t_ref - EPOCH_NS) / 1e9:.3f}s (fault class {cls}; last frame before: '
                             f'{"never" if last is None else f"{(last - EPOCH_NS) / 1e9:.3f}s"}; stop {world.stop_reason})',
                             None, t_ref, fault=cls, shape=sc['shape'], twice_attached_required=twice_req))
            else:
                d = (got[0] - t_ref) * 100 // Hn
                stats['c06_heal_pct_of_H_max'] = max(stats['c06_heal_pct_of_H_max'], d)
        # keeps moving until the end: no gap longer than H anywhere after t_ref
        for n in sync_nodes:
            if n in permanently_dead or world.live_proc(n) is None:
                continue
            ts = [t for t in ins.get(n, []) if t > t_ref] + [end]
            for a, b in zip(ts, ts[1:]):
                if b - a > allow[n]:
                    out.append(V('C06', 'stuck', f'{n}: {((b - a) / 1e9):.2f}s without a new frame after '
                                 f'{(a - EPOCH_NS) / 1e9:.3f}s (bound {allow[n] / 1e9:.2f}s, fault class {cls})', None, a,
                                 fault=cls, shape=sc['shape'], twice_attached_required=twice_req))
                    break
    # ordering guarantee still holds
    for v in check_c02(world):
        if v['oracle'] in ('order', 'duplicate_id', 'delivered_twice', 'origin_order'):
            v = dict(v)
            v['property'] = 'C06'
            v['oracle'] = 'ordering_' + v['oracle']
            out.append(v)
    # a publisher whose required output is missing waits for it
    kills = [e for e in happened if e[3] == 'kill']
    restarts = [e for e in happened if e[3] == 'restart']
    for ke in kills:
        victim = ke[4]
        t_k = ke[2]
        t_r = min([r[2] for r in restarts if r[4] == victim and r[2] >= t_k], default=end)
        for s in nodes[victim].get('sources') or []:
            p = s['from']
            req = nodes[p].get('outputs_required') or []
            if isinstance(req, str):
                req = [x.strip() for x in req.split(',')]
            if victim not in req or s.get('eph'):
                continue
            if nodes[p].get('outputs_balance'):
                continue     # a balanced publisher keeps serving its other outputs; the per-consumer mark rule does not apply
            pp = world.live_proc(p)
            if pp is None:
                continue
            # the dead consumer's pending request mark (set by a request p dequeued after its previous publish, or still
            # in flight at the kill) allows exactly one more publish; nothing else until the consumer is back
            ptimes = sorted(rec['t0'] for (owner, mid), rec in world.pubs.items() if owner == pp.key)
            t_prev = max([t for t in ptimes if t <= t_k], default=0)
            vkeys = {q.key for q in world.procs.get(victim, []) if q.key != (world.live_proc(victim).key if world.live_proc(victim) else None)}
            n_deq = sum(1 for e in world.events
                        if e[0] == 'pullrecv' and e[3] == pp.key and e[4].split('#')[0] == victim and t_prev < e[2] < t_r
                        and e[5] is not None and e[5] >= -1)
            n_pub = sum(1 for t in ptimes if t_k < t < t_r)
            stats['c06_required_missing_windows'] += 1
            if n_pub > n_deq:       # every publish needs a request of the (dead) consumer dequeued since the previous one
                out.append(V('C06', 'required_missing_publish',
                             f'{pp.key} published {n_pub} frame(s) between {(t_k - EPOCH_NS) / 1e9:.3f}s and '
                             f'{(t_r - EPOCH_NS) / 1e9:.3f}s although its required output {victim} was dead and only '
                             f'{n_deq} of its requests were still dequeued', None, t_k, shape=sc['shape']))
    return out


C08_KIND = {'exit_process': 'clean', 'exit_setup': 'clean', 'exit_shutdown': 'clean', 'stop': 'clean',
            'exit_after_secs': 'clean', 'exit_after_str': 'clean', 'exit_after_at': 'clean',
            'raise_process': 'error', 'raise_setup': 'error', 'raise_init': 'error', 'raise_shutdown': 'error',
            'raise_send': 'error', 'raise_recv': 'error'}
_FLAGS = {'all': 3, 'clean': 1, 'error': 2, 'none': 0}
_BIT = {'clean': 1, 'error': 2}


def c08_expected(sc):
    """Which filters must end, and why: {nid: (kind, 'self' | 'propagated', depth)}."""
    nodes = sc['nodes']
    adj = {n: set() for n in sc['order']}
    for n in sc['order']:
        for s in nodes[n].get('sources') or []:
            adj[n].add(s['from'])
            adj[s['from']].add(n)
    x = sc['x']
    kind = C08_KIND[sc['cause']]
    ends = {x: (kind, 'self', 0)}
    frontier = [x]
    # raise_init fails before inter-filter communication exists: nothing can be announced
    can_announce = sc['cause'] != 'raise_init'
    while frontier:
        nxt = []
        for m in frontier:
            mk, _, d = ends[m]
            if m == x and not can_announce:
                continue
            if not (_FLAGS[nodes[m].get('prop_exit') or 'clean'] & _BIT[mk]):
                continue
            for n in sorted(adj[m]):
                if n in ends:
                    continue
                if _FLAGS[nodes[n].get('obey_exit') or 'all'] & _BIT[mk]:
                    ends[n] = (mk, m, d + 1)
                    nxt.append(n)
        frontier = nxt
    return ends


def check_c08(world):
    """Lifecycle automaton per filter incarnation, socket census, outcome, exit propagation, exit_after."""
    sc = world.sc
    out = []
    stats = world.ostats
    nodes = sc['nodes']
    x = sc['x']
    cause = sc['cause']
    kind = C08_KIND[cause]
    sig = dict(cause=cause)
    life = {}
    for e in world.events:
        if e[0] == 'life':
            life.setdefault((e[3], e[4]), []).append((e[5], e[2], e[1]))
    reasons = {}
    for e in world.events:
        if e[0] == 'log' and e[3] is not None:
            if 'another filter exited' in e[7]:
                reasons[(e[3], e[4])] = 'clean'
            elif 'another filter errored' in e[7]:
                reasons[(e[3], e[4])] = 'error'
    ended = {}
    for (nid, inc), evs in life.items():
        names = [n for n, _, _ in evs]
        fin = next(((n, t) for n, t, _ in evs if n in ('run_return', 'run_raise')), None)
        if fin is None:
            continue
        ended[nid] = fin
        stats['c08_incarnations_ended'] += 1
        n_sd = names.count('shutdown')
        setup_ok = 'setup_exit' in names
        if setup_ok and n_sd != 1:
            out.append(V('C08', 'shutdown_count', f'{nid}: setup() completed but shutdown() ran {n_sd} times '
                         f'(cause {cause} at {x})', None, fin[1], **sig))
        if not setup_ok and n_sd:
            out.append(V('C08', 'shutdown_without_setup', f'{nid}: shutdown() ran although setup() did not complete '
                         f'(cause {cause} at {x})', None, fin[1], **sig))
        if setup_ok and n_sd and names.index('shutdown') < names.index('setup_exit'):
            out.append(V('C08', 'shutdown_before_setup', f'{nid}: shutdown() before setup() returned', None, fin[1], **sig))
        key = f'{nid}#{inc}'
        if world.census.get(key):
            out.append(V('C08', 'sockets_left_open', f'{nid}: run() left with open sockets {world.census[key]} '
                         f'(cause {cause} at {x})', None, fin[1], **sig))
        if not world.stop_flags.get(key):
            out.append(V('C08', 'stop_event_not_set', f'{nid}: stop event not set after run() (cause {cause} at {x})',
                         None, fin[1], **sig))
    exp = c08_expected(sc)
    # X itself: returns for clean, raises for error
    if x in ended:
        want = 'run_return' if kind == 'clean' else 'run_raise'
        if ended[x][0] != want:
            detail = next((str(e[6:8]) for e in world.events if e[0] == 'life' and e[3] == x and e[5] == 'run_raise'), '')
            out.append(V('C08', 'outcome', f'{x}: cause {cause} is a {kind} ending but run() '
                         f'{"raised " + detail if ended[x][0] == "run_raise" else "returned normally"}', None,
                         ended[x][1], **sig))
    elif world.stop_reason != 'max_steps':
        out.append(V('C08', 'did_not_end', f'{x}: cause {cause} did not end the filter (stop {world.stop_reason})', None,
                     None, **sig))
    # soundness: nobody ends who must not
    for nid, fin in ended.items():
        if nid not in exp:
            out.append(V('C08', 'ended_unexpectedly',
                         f'{nid} left run() ({fin[0]}, reason {reasons.get((nid, 0))}) although with cause {cause} at {x} '
                         f'(kind {kind}) and the policies {_pol(sc)} it must keep running', None, fin[1], **sig))
        elif nid != x:
            k2 = exp[nid][0]
            if reasons.get((nid, 0)) != k2:
                out.append(V('C08', 'wrong_reason', f'{nid}: ended with reason {reasons.get((nid, 0))}, expected obeyed '
                             f'{k2} exit', None, fin[1], **sig))
            if k2 == 'clean' and fin[0] != 'run_return':
                out.append(V('C08', 'outcome_propagated', f'{nid}: obeyed clean exit but run() raised', None, fin[1], **sig))
    # send side: a filter that ends with its MQ set up and whose policy propagates that kind of ending puts the
    # announcement on every one of its channels - the request channel of each synchronized source, the publish channel
    # if it has outputs - whether or not the neighbour is connected or has been heard from yet
    oob_push = {}
    for r in world.reqs:
        if r[4] == -2:
            oob_push.setdefault(r[2], set()).add(r[3])
    oob_pub = {e[3] for e in world.events if e[0] == 'pubx' and e[5] == -2}
    for nid, fin in ended.items():
        k_n = kind if nid == x else (exp[nid][0] if nid in exp else None)
        if k_n is None or not (_FLAGS[nodes[nid].get('prop_exit') or 'all'] & _BIT[k_n]):
            continue
        if not any(n == 'init_exit' for n, t, _ in life.get((nid, 0), [])):
            continue                       # ended before its sockets existed
        key = f'{nid}#0'
        n_sync = sum(1 for s2 in nodes[nid].get('sources') or [] if not s2.get('eph'))
        stats['c08_announcement_send_checks'] += 1
        if len(oob_push.get(key, ())) < n_sync:
            out.append(V('C08', 'announcement_not_sent',
                         f'{nid} ended ({k_n}; cause {cause} at {x}) with propagate policy {nodes[nid].get("prop_exit")} but '
                         f'pushed its exit announcement on {len(oob_push.get(key, ()))} of the {n_sync} request channels of '
                         f'its synchronized sources', None, fin[1], channel='request', **sig))
        if nodes[nid].get('has_output', True) and key not in oob_pub:
            out.append(V('C08', 'announcement_not_sent',
                         f'{nid} ended ({k_n}; cause {cause} at {x}) with propagate policy {nodes[nid].get("prop_exit")} but '
                         f'published no exit announcement on its output', None, fin[1], channel='publish', **sig))
    # completeness (only when X ended while the pipeline was fully connected)
    steady = not sc.get('early') and cause not in ('raise_init', 'raise_setup', 'exit_setup')
    if steady and x in ended:
        t_x = ended[x][1]
        knobs = sc.get('knobs') or {}
        lat = (knobs.get('net') or {}).get('lat_max_ns', 2_000_000)
        procs = max(max(s.get('proc_ns') or [0]) for s in nodes.values())
        per_hop = 200_000_000 + 2 * lat + procs + 100_000_000
        for nid, (k2, why, depth) in exp.items():
            if nid == x:
                continue
            if why not in ended:
                continue     # its announcer never ended (reported on its own): nothing was announced to this filter
            stats['c08_propagation_checks'] += 1
            bound = t_x + depth * per_hop + 500_000_000
            if nid not in ended:
                if world.final_now >= bound:
                    # classify: is the deaf filter upstream of the announcer and idle in recv() (all its own sources
                    # have ended), i.e. it never polls its request sockets on which the announcement arrived?
                    relation = 'upstream' if any(s['from'] == nid for s in nodes[why].get('sources') or []) else 'downstream'
                    un = world.unread_oob.get(f'{nid}#0') or set()
                    want = 'PULL' if relation == 'upstream' else 'SUB'
                    blocked = f'announcement_unread_in_{want}_queue' if want in un else 'other'
                    out.append(V('C08', 'did_not_obey',
                                 f'{nid} keeps running {((world.final_now - t_x) / 1e9):.2f}s after {x} ended ({cause}, '
                                 f'{kind}); it is {relation} of the announcing filter {why}; policies {_pol(sc)} prescribe '
                                 f'that it ends', None, t_x, relation=relation, blocked=blocked, **sig))
            elif ended[nid][1] > bound:
                out.append(V('C08', 'obeyed_late', f'{nid} ended {((ended[nid][1] - t_x) / 1e9):.2f}s after {x}', None, t_x,
                             **sig))
    # outside the steady state (X ended during start-up) nothing can be said about who was connected, but a filter that
    # actually READ the announcement from its socket must obey it
    if not steady and x in ended:
        reads = {}
        for e in world.events:
            if e[0] == 'pullrecv' and e[5] == -2:
                reads.setdefault((e[3].split('#')[0], e[4].split('#')[0]), e[2])
            elif e[0] == 'subrecv_oob':
                reads.setdefault((e[3].split('#')[0], e[4].split('#')[0]), e[2])
        for nid, (k2, why, depth) in exp.items():
            if nid == x or why not in ended:
                continue
            t_read = reads.get((nid, why))
            if t_read is None or world.live_proc(nid) is None and nid not in ended:
                continue
            stats['c08_early_read_checks'] += 1
            if nid not in ended and world.final_now > t_read + 1_000_000_000:
                relation = 'upstream' if any(s['from'] == nid for s in nodes[why].get('sources') or []) else 'downstream'
                out.append(V('C08', 'did_not_obey',
                             f'{nid} read the exit announcement of {why} ({kind}) at {(t_read - EPOCH_NS) / 1e9:.3f}s but keeps '
                             f'running; policies {_pol(sc)} prescribe that it ends', None, t_read, relation=relation,
                             blocked='announcement_read', **sig))
    # exit_after: ends cleanly within one loop iteration after T
    if cause.startswith('exit_after') and x in ended and ended[x][0] == 'run_return':
        t0 = next((t for n, t, _ in life[(x, 0)] if n == 'init_enter'), None)
        T = sc['t_cause_ms'] * 1_000_000
        spec = nodes[x]
        ea = spec.get('exit_after')
        if cause == 'exit_after_secs':
            T = int(float(ea) * 1e9)
        elif cause == 'exit_after_str':
            parts = [float(p) for p in str(ea).split(':')]
            sec = 0.0
            for p in parts:
                sec = sec * 60 + p
            T = int(sec * 1e9)
        base = EPOCH_NS if cause == 'exit_after_at' else t0
        el = ended[x][1] - base
        period = max([s.get('period_ns', 0) for s in nodes.values() if s.get('src')] or [0])
        procs = sum(max(s.get('proc_ns') or [0]) for s in nodes.values())
        slack = period + procs + 3 * 100_000_000 + 200_000_000
        stats['c08_exit_after_checks'] += 1
        if el < T - 2_000_000 or el > T + slack:
            out.append(V('C08', 'exit_after_time', f'{x}: exit_after {ea!r} ended the filter after {el / 1e9:.3f}s, '
                         f'expected within [{T / 1e9:.3f}, {(T + slack) / 1e9:.3f}]s', None, ended[x][1], **sig))
    return out


def _pol(sc):
    return {n: (s.get('prop_exit'), s.get('obey_exit')) for n, s in sc['nodes'].items()}
