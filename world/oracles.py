"""Oracles over the recorded history of an MQ-world run. Each returns a list of violation records
{property, oracle, signature, message, step, vtime}; `signature` holds only scenario-shape fields so that one entry of
known_findings.json matches one failure mode."""

import json

from .mq import selected_topics, EPOCH_NS

SYS_TOPICS = ('_filter', '_metrics')


def V(prop, oracle, message, step=None, vtime=None, causes=None, **sig):
    return {'property': prop, 'oracle': oracle, 'signature': dict(sig), 'message': message, 'step': step,
            'vtime': None if vtime is None else (vtime - EPOCH_NS) / 1e9, 'context': causes}


def _sources(sc, nid):
    return sc['nodes'][nid].get('sources') or []


def scenario_causes(sc):
    """Coarse classification of what a scenario contains (for signatures)."""
    c = set()
    for nid, spec in sc['nodes'].items():
        if spec.get('skip') or spec.get('defer_none'):
            c.add('skip')
        if spec.get('empty'):
            c.add('empty')
    for f in sc.get('faults') or []:
        c.add(f['kind'])
    if (sc.get('knobs', {}).get('net') or {}).get('drop_pub', (0, 1))[0]:
        c.add('drop_pub')
    if 'rcvhwm' in (sc.get('knobs', {}).get('net') or {}):
        c.add('hwm_small')
    return sorted(c)


def attribute_set(world, nid, desc):
    """Split a delivered frame set by source: {source nid: [(delivered topic, fd, pubinfo|None)]}, plus unattributed."""
    sc = world.sc
    srcs = _sources(sc, nid)
    by_src = {s['from']: [] for s in srcs}
    unattributed = []
    for topic, fd in desc.items():
        tok = fd['tok']
        if tok is not None and fd['o'] in by_src:
            by_src[fd['o']].append((topic, fd, world.tok2pub.get(tok)))
        else:
            unattributed.append((topic, fd))
    return by_src, unattributed


def check_c01(world):
    """No mixed or partial frame sets at any filter with synchronized sources."""
    sc = world.sc
    out = []
    causes = scenario_causes(sc)
    stats = world.ostats
    for e in world.events:
        if e[0] != 'in':
            continue
        _, step, now, nid, inc, k, claimed_mid, desc = e
        srcs = _sources(sc, nid)
        sync = [s for s in srcs if not s.get('eph')]
        if not sync:
            continue
        balance = bool(sc['nodes'][nid].get('sources_balance'))
        by_src, unattributed = attribute_set(world, nid, desc)
        stats['c01_sets'] += 1
        # (a) one id across all synchronized sources
        mids = {}
        for s in sync:
            for topic, fd, pub in by_src[s['from']]:
                if pub is None:
                    out.append(V('C01', 'phantom_frame', f'{nid}#{inc} call {k}: frame tok={fd["tok"]} on {topic!r} '
                                 f'was never published', step, now, shape=sc['shape']))
                    continue
                mids.setdefault(pub[1], []).append((s['from'], topic, pub[0]))
        if len(mids) > 1:
            out.append(V('C01', 'mixed_ids',
                         f'{nid}#{inc} call {k} was handed frames of different message ids: ' +
                         '; '.join(f'id {m}: ' + ', '.join(f'{t} from {o}' for _, t, o in v) for m, v in sorted(mids.items())),
                         step, now, shape=sc['shape'], causes=causes))
            continue
        if not mids:
            stats['c01_sets_unattributable'] += 1
            continue
        mid = next(iter(mids))
        stats['c01_sets_multi_source'] += len(sync) > 1
        # (b) exact topic set per synchronized source
        delivering = [s for s in sync if by_src[s['from']]]
        for s in sync:
            got = by_src[s['from']]
            up = s['from']
            if balance and not got:
                continue
            if balance and len(delivering) > 1:
                out.append(V('C01', 'balanced_mixed_sources', f'{nid}#{inc} call {k}: balanced set combines sources '
                             f'{[d["from"] for d in delivering]}', step, now, shape=sc['shape']))
                break
            if got:
                owner = got[0][2][0]
                rec = world.pubs.get((owner, mid))
            else:
                rec = None
                for p in world.procs.get(up, []):
                    rec = world.pubs.get((p.key, mid))
                    if rec is not None:
                        break
                if rec is None:
                    out.append(V('C01', 'missing_source',
                                 f'{nid}#{inc} call {k}: set for id {mid} delivered although synchronized source {up} '
                                 f'never published that id', step, now, shape=sc['shape'], causes=causes))
                    continue
            pub_topics = rec['topics'] or []
            sel = selected_topics(s.get('sub'), pub_topics)
            expected = set(sel.values())
            got_names = {t for t, _, _ in got}
            for t, fd in unattributed:
                if t in expected and fd['tok'] is None:
                    got_names.add(t)      # frames without provenance (system topics, data-less frames): by name
            if got_names != expected:
                kind = 'partial_set' if got_names < expected else 'extra_topics'
                out.append(V('C01', kind,
                             f'{nid}#{inc} call {k}: from {up} (id {mid}, published topics {pub_topics}, subscription '
                             f'{s.get("sub")!r}) expected {sorted(expected)} got {sorted(got_names)}',
                             step, now, shape=sc['shape'], causes=causes))
        # (c) a rejoined set descends from one original frame per root source
        roots = {}
        for s in sync:
            for topic, fd, pub in by_src[s['from']]:
                for r in fd['r']:
                    a, b, c = r.rsplit('.', 2)
                    roots.setdefault((a, b), set()).add(int(c))
        for (rn, ri), seqs in roots.items():
            if len(seqs) > 1:
                out.append(V('C01', 'rejoin_roots',
                             f'{nid}#{inc} call {k}: rejoined set descends from different original frames of {rn}#{ri}: '
                             f'{sorted(seqs)} (id {mid})', step, now, shape=sc['shape'], causes=causes))
                break
    return out


def _img_equal(world, delivered_img, wire):
    """delivered_img: (kind, bytes, fmt, shape, ro); wire: (xtra, parts) as published."""
    xtra, parts = wire
    if not xtra or 'img' not in xtra:
        return delivered_img is None, 'published without image'
    if delivered_img is None:
        return False, 'image lost'
    h, w, fmt, enc = xtra['img']
    kind, b, dfmt, shape, ro = delivered_img
    if dfmt != fmt or tuple(shape[:2]) != (h, w):
        return False, f'declared {(h, w, fmt)} delivered {(tuple(shape), dfmt)}'
    wire_bytes = bytes(parts[0])
    if enc == 'jpg':
        if kind == 'jpg':
            return b == wire_bytes, 'jpg bytes differ'
        import cv2
        import numpy as np
        dec = cv2.imdecode(np.frombuffer(wire_bytes, np.uint8), cv2.IMREAD_COLOR if fmt != 'GRAY' else 0)
        return dec is not None and dec.tobytes() == b, 'decoded jpg differs'
    if kind != 'raw':
        return False, 'raw image delivered as jpg'
    return b == wire_bytes, 'raw bytes differ'


def check_c02(world):
    """At most once, in order, unaltered, right names, nothing unsubscribed."""
    sc = world.sc
    out = []
    causes = scenario_causes(sc)
    stats = world.ostats
    last_mid = {}        # (nid, inc, source) -> last delivered mid
    seen_pub = {}        # (nid, source) -> {(owner, mid)}
    last_n = {}          # (nid, inc, origin node, origin inc) -> last emit index n
    prev_owner = {}
    for e in world.events:
        if e[0] != 'in':
            continue
        _, step, now, nid, inc, k, claimed_mid, desc = e
        srcs = _sources(sc, nid)
        by_src, unattributed = attribute_set(world, nid, desc)
        for s in srcs:
            up = s['from']
            got = by_src[up]
            if not got:
                continue
            eph = s.get('eph', 0)
            pubs_here = {p[:2] for _, _, p in got if p is not None}
            for owner, mid in pubs_here:
                stats['c02_deliveries'] += 1
                if not eph:
                    key = (nid, inc, up)
                    prev = last_mid.get(key)
                    if prev is not None and mid <= prev and owner == prev_owner.get(key):
                        out.append(V('C02', 'order' if mid < prev else 'duplicate_id',
                                     f'{nid}#{inc} call {k}: id {mid} from {owner} delivered after id {prev}',
                                     step, now, shape=sc['shape'], causes=causes))
                    last_mid[key] = mid
                    prev_owner[key] = owner
                    sp = seen_pub.setdefault((nid, up), set())
                    if (owner, mid) in sp:
                        out.append(V('C02', 'delivered_twice',
                                     f'{nid}#{inc} call {k}: publish event ({owner}, id {mid}) delivered a second time '
                                     f'to consumer {nid}', step, now, shape=sc['shape'], causes=causes))
                    sp.add((owner, mid))
            for topic, fd, pub in got:
                if pub is None:
                    continue
                owner, mid, ptopic = pub
                # emit order per origin incarnation
                if not eph:
                    nk = (nid, inc, fd['o'], fd['i'], ptopic)
                    pn = last_n.get(nk)
                    if pn is not None and fd['n'] is not None and fd['n'] <= pn:
                        out.append(V('C02', 'origin_order',
                                     f'{nid}#{inc} call {k}: frame n={fd["n"]} of {fd["o"]}#{fd["i"]} ({ptopic}) after '
                                     f'n={pn}', step, now, shape=sc['shape'], causes=causes))
                    last_n[nk] = fd['n']
                # name mapping and selection
                sel = selected_topics(s.get('sub'), [ptopic])
                if ptopic not in sel:
                    out.append(V('C02', 'unsubscribed_delivered',
                                 f'{nid}#{inc} call {k}: topic {ptopic!r} of {up} delivered as {topic!r} although '
                                 f'subscription {s.get("sub")!r} does not select it', step, now, shape=sc['shape']))
                elif sel[ptopic] != topic:
                    out.append(V('C02', 'wrong_name',
                                 f'{nid}#{inc} call {k}: topic {ptopic!r} of {up} delivered as {topic!r}, subscription maps '
                                 f'it to {sel[ptopic]!r}', step, now, shape=sc['shape']))
                # content
                rec = world.pubs.get((owner, mid))
                wire = rec['msgs'].get(ptopic) if rec else None
                if wire is None:
                    continue
                xtra, parts = wire
                stats['c02_frames_compared'] += 1
                dataidx = 1 if xtra else 0
                wire_data = json.loads(parts[dataidx]) if len(parts) > dataidx else {}
                if wire_data != fd['data']:
                    out.append(V('C02', 'data_altered',
                                 f'{nid}#{inc} call {k}: data of {ptopic!r} (id {mid}) differs from what was published',
                                 step, now, shape=sc['shape']))
                ok, why = _img_equal(world, fd['img'], wire)
                if not ok:
                    out.append(V('C02', 'image_altered',
                                 f'{nid}#{inc} call {k}: image of {ptopic!r} (id {mid}): {why}', step, now,
                                 shape=sc['shape']))
                # send side: wire equals what the filter emitted
                em = world.emits.get(fd['tok'])
                if em is not None and em[3] != wire_data:
                    out.append(V('C02', 'data_altered_on_send', f'emit tok={fd["tok"]} data differs on the wire',
                                 step, now, shape=sc['shape']))
        for topic, fd in unattributed:
            if fd['tok'] is None and topic in SYS_TOPICS:
                # system hidden topics may only show up through '*' or an explicit subscription
                if not any(s.get('sub') == '*' or (isinstance(s.get('sub'), list) and
                                                   any(b == topic for a, b in s['sub'])) for s in srcs):
                    out.append(V('C02', 'hidden_delivered', f'{nid}#{inc} call {k}: hidden topic {topic!r} delivered '
                                 f'without being asked for', step, now, shape=sc['shape']))
            elif fd['tok'] is not None:
                out.append(V('C02', 'foreign_frame', f'{nid}#{inc} call {k}: frame on {topic!r} originates from '
                             f'{fd["o"]} which is not a source of {nid}', step, now, shape=sc['shape']))
    return out

