"""Functional reference model of a synchronized pipeline (C03, backbone of C05): evaluates the scripted behaviours of
world/mq.py's test filters on the source sequence and yields, per node, the exact list of frame sets its process()
must be handed.

A frame is modelled as (origin node, emit index n, roots tuple); system hidden topics that MQ adds are modelled as
(None, None, ()) entries under their names."""

from .mq import selected_topics, _hit, _root_key

SYS = (None, None, ())


def _outputs_of_call(nid, spec, key, roots, n_emit):
    """What one process() call sends: None (nothing) or (topics dict, new n_emit)."""
    form = spec.get('form', 'dict')
    if form == 'callable' and _hit(spec.get('defer_none'), key):
        return None, n_emit
    if _hit(spec.get('empty'), key):
        return {}, n_emit
    out = {}
    for o in spec.get('out') or [{'name': 'main'}]:
        if o.get('only') is not None and not _hit(o['only'], key):
            continue
        if o.get('nodata'):
            out[o['name']] = (None, None, ())
        else:
            out[o['name']] = (nid, n_emit, tuple(roots))
    n_emit += 1
    if form == 'frame':
        first = next(iter(out.values()))
        out = {'main': first}
    return out, n_emit


def _with_sys(spec, topics):
    t = dict(topics)
    if spec.get('outputs_metrics'):
        t['_metrics'] = SYS
    if spec.get('outputs_filter'):
        t['_filter'] = SYS
    return t


def evaluate(sc, only_sync=True):
    """Returns (inputs, published): inputs[nid] = [ {delivered topic: (origin, n, roots)} , ...] for every non-source
    node reachable through synchronized sources; published[nid] = [(mid, {topic: frame})]."""
    nodes = sc['nodes']
    published = {}
    inputs = {}
    for nid in sc['order']:
        spec = nodes[nid]
        if spec.get('src'):
            pub = []
            n_emit = 0
            mid = 0
            n_frames = spec.get('n_frames', sc.get('n_frames', 0))
            for k in range(n_frames):
                if _hit(spec.get('skip'), k):
                    continue
                roots = [f'{nid}.0.{k}']
                res, n_emit = _outputs_of_call(nid, spec, k, roots, n_emit)
                if res is None:
                    continue
                pub.append((mid, _with_sys(spec, res)))
                mid += 1
            published[nid] = pub
            continue
        srcs = [s for s in spec.get('sources') or [] if not (only_sync and s.get('eph'))]
        if not srcs or any(s['from'] not in published for s in srcs):
            continue
        # join by message id across all synchronized sources
        per_src = []
        for s in srcs:
            d = {}
            for mid, topics in published[s['from']]:
                sel = selected_topics(s.get('sub'), list(topics))
                d[mid] = {dst: topics[src] for src, dst in sel.items()}
            per_src.append(d)
        common = set(per_src[0])
        for d in per_src[1:]:
            common &= set(d)
        ins = []
        pub = []
        n_emit = 0
        for k, mid in enumerate(sorted(common)):
            fs = {}
            for d in per_src:
                fs.update(d[mid])
            ins.append(fs)
            rs = set()
            for fr in fs.values():
                rs.update(fr[2])
            roots = sorted(rs, key=_root_key)
            key = _root_key(roots[0])[2] if roots else k
            if _hit(spec.get('skip'), key):
                continue
            if not spec.get('has_output', True):
                continue
            res, n_emit = _outputs_of_call(nid, spec, key, roots, n_emit)
            if res is None:
                continue
            pub.append((mid, _with_sys(spec, res)))
        inputs[nid] = ins
        if spec.get('has_output', True):
            published[nid] = pub
    return inputs, published


def observed_inputs(world, nid, inc=0):
    """The recorded process() inputs of a node in the same shape as the model's."""
    out = []
    for e in world.events:
        if e[0] == 'in' and e[3] == nid and e[4] == inc:
            desc = e[7]
            out.append({t: (fd['o'], fd['n'], tuple(fd['r'])) if fd['tok'] is not None else (None, None, ())
                        for t, fd in desc.items()})
    return out
