"""MQ world: real `Filter.run` processes on the simulated ZeroMQ network.

A *scenario* is a JSON-able dict (nodes, behaviours, subscriptions, knobs, fault plan). `MQWorld(scenario, choice)`
binds the seams, runs every node's unmodified `Filter.run` as a scheduler task, injects the planned faults and records
an event log that the oracles (world/oracles.py) read. Test filters are subclasses of the real `Filter` with a scripted
`process()`; every frame they emit carries provenance in `Frame.data` so that every frame observed anywhere is
attributable to exactly one emit and one publish event.
"""

import json
import logging
import re

from sim import patch as P
from sim.clock import SimClock, SimTimeModule, make_datetime_class
from sim.core import Scheduler, SimKilled, SimAbort, HarnessError, EPOCH_NS
from sim.threads import SimThreading, SimEvent
from sim.zmqnet import Net, SimZmq, PUB, PUSH, _Counter

MS = 1_000_000
SEC = 1_000_000_000

CURRENT = None   # the world whose run is in progress (test filters find their script through it)

_RE_TOK = re.compile(rb'"tok":(\d+)')
_RE_FID = re.compile(rb'"id":(\d+)')

BASE_PORT = 6000


def node_port(idx, out_idx=0):
    return BASE_PORT + 40 * idx + 2 * out_idx


def bind_addr(idx, out_idx=0, ipc=False):
    return f'ipc://simpipe{idx}_{out_idx}' if ipc else f'tcp://*:{node_port(idx, out_idx)}'


def conn_addr(idx, out_idx=0, ipc=False):
    return f'ipc://simpipe{idx}_{out_idx}' if ipc else f'tcp://127.0.0.1:{node_port(idx, out_idx)}'


def render_source(sc, src):
    """Render a consumer's source entry to the text form the real config parser expects."""
    up = sc['nodes'][src['from']]
    idx = sc['order'].index(src['from'])
    s = conn_addr(idx, src.get('out_idx', 0), up.get('ipc', False)) + '?' * src.get('eph', 0)
    sub = src.get('sub')
    if sub == '*':
        s += ';*'
    elif sub is not None:
        for a, b in sub:
            if a == b:
                s += ';' if a == 'main' and src.get('short_main') else f';{a}'
            elif b == 'main':
                s += f';{a}>'
            elif a == 'main':
                s += f';>{b}'
            else:
                s += f';{a}>{b}'
    return s


def eph_classifier(spec):
    """(topic, origin) -> does this delivered frame come through an ephemeral source entry? A consumer may be attached to
    one publisher twice (synchronized and ephemeral): then the delivered topic name decides, otherwise the origin."""
    srcs = spec.get('sources') or []
    eph_topics = set()
    eph_only = set()
    sync_from = {s['from'] for s in srcs if not s.get('eph')}
    for s in srcs:
        if s.get('eph'):
            if isinstance(s.get('sub'), list):
                eph_topics.update(b for a, b in s['sub'])
            if s['from'] not in sync_from:
                eph_only.add(s['from'])
    return lambda topic, origin: topic in eph_topics or origin in eph_only


def selected_topics(sub, pub_topics):
    """{published topic: delivered name} a subscription selects from a published topic list."""
    if sub is None:
        return {t: t for t in pub_topics if not t.startswith('_')}
    if sub == '*':
        return {t: t for t in pub_topics}
    return {a: b for a, b in sub if a in pub_topics}


class StubMetrics:
    """Deterministic stand-in for mq.Metrics (the real one starts psutil / nvidia-smi sampler threads)."""

    def __init__(self):
        self.t0 = CURRENT.clock.time() if CURRENT is not None else 0.0
        self.n_in = 0

    def destroy(self):
        pass

    def incoming(self, frames=None):
        if frames:
            self.n_in += 1

    def outgoing(self, frames=None):
        t = CURRENT.clock.time() if CURRENT is not None else 0.0
        m = {'ts': t, 'fps': 15.0, 'cpu': 1.0, 'mem': 0.1, 'uptime_count': int(t - self.t0)}
        if self.n_in:
            m['frame_count'] = self.n_in
        return m

    log_text = None   # replaced by the real static method at install time


class _NullScarf:
    def log_event(self, *a, **kw):
        return False


class _OsShim:
    """zeromq.py only uses os.getenv (import time) and os.unlink (ipc clean-up)."""

    def __init__(self, real):
        self._real = real
        self.getenv = real.getenv
        self.environ = real.environ
        self.path = real.path

    def unlink(self, path):
        raise FileNotFoundError(path)


class NodeState:
    """Per-incarnation state of a test filter."""

    __slots__ = ('nid', 'spec', 'proc', 'k', 'n_emit', 'setup_done', 'shutdown_calls', 'filter')

    def __init__(self, nid, spec, proc):
        self.nid = nid
        self.spec = spec
        self.proc = proc
        self.k = 0
        self.n_emit = 0
        self.setup_done = False
        self.shutdown_calls = 0
        self.filter = None


class InjectedError(Exception):
    """An exception a fault plan makes a test filter raise."""


_sim_filter_cls = None


def sim_filter_class():
    global _sim_filter_cls
    if _sim_filter_cls is not None:
        return _sim_filter_cls
    fmod = P.mod('openfilter.filter_runtime.filter')
    Filter = fmod.Filter
    Frame = P.mod('openfilter.filter_runtime.frame').Frame
    import numpy as np

    class SimFilter(Filter):
        FILTER_TYPE = 'Sim'

        # -- lifecycle ---------------------------------------------------------------------------------------------

        def init(self, config):
            w = CURRENT
            st = w.state_of_current()
            st.filter = self
            w.ev('life', st.nid, st.proc.inc, 'init_enter')
            w.inject(st, 'init')
            super().init(config)
            w.ev('life', st.nid, st.proc.inc, 'init_exit')

        def setup(self, config):
            w = CURRENT
            st = w.state_of_current()
            w.ev('life', st.nid, st.proc.inc, 'setup_enter')
            w.inject(st, 'setup')
            st.setup_done = True
            w.ev('life', st.nid, st.proc.inc, 'setup_exit')

        def shutdown(self):
            w = CURRENT
            st = w.state_of_current()
            st.shutdown_calls += 1
            w.ev('life', st.nid, st.proc.inc, 'shutdown')
            w.inject(st, 'shutdown')

        def fini(self):
            w = CURRENT
            st = w.state_of_current()
            w.ev('life', st.nid, st.proc.inc, 'fini_enter')
            try:
                super().fini()
            finally:
                w.ev('life', st.nid, st.proc.inc, 'fini_exit')

        # -- the scripted process() -----------------------------------------------------------------------------------

        def process(self, frames):
            w = CURRENT
            st = w.state_of_current()
            spec = st.spec
            k = st.k
            st.k = k + 1
            sched = w.sched
            if spec.get('src'):
                n_frames = spec.get('n_frames', w.sc.get('n_frames', 20))
                if k >= n_frames:
                    sched.sleep_ns(spec.get('idle_ns', 50 * MS), 'src-idle')
                    return None
                sched.sleep_ns(max(spec.get('period_ns', MS), w.min_cpu_ns), 'src-period')
                w.inject(st, 'process', k)
                seq = k
                if _hit(spec.get('skip'), seq):
                    w.ev('emit', st.nid, st.proc.inc, k, None, None)
                    return None
                roots = [f'{st.nid}.{st.proc.inc}.{seq}']
                in_img = None
                key = seq
            else:
                ss = st.proc.data.get('send_state_probe')
                mid = None
                mq = getattr(self, 'mq', None)
                if mq is not None and mq.send_state is not None:
                    mid = mq.send_state.msg_id
                if not frames and spec.get('sources_timeout') is not None:
                    # sources_timeout elapsed: process() is called with no frames; the scripted filter emits nothing
                    st.k = k
                    w.ev('in_empty', st.nid, st.proc.inc, k)
                    sched.sleep_ns(w.min_cpu_ns, 'process-empty')
                    return None
                desc = w.describe_frames(frames)
                w.ev('in', st.nid, st.proc.inc, k, mid, desc)
                w.n_in += 1
                w.inject(st, 'process', k)
                pat = spec.get('proc_ns') or [0]
                d = pat[k % len(pat)]
                stall = spec.get('stall_at')
                if stall is not None and stall[0] == k:
                    w.ev('stall_begin', st.nid, st.proc.inc, k, stall[1])
                    w.stall_info = (sched.now, stall[1])
                    d += stall[1]
                sched.sleep_ns(max(d, w.min_cpu_ns), 'process')
                rs = set()
                key = None
                is_eph = st.proc.data.get('is_eph')
                if is_eph is None:
                    is_eph = st.proc.data['is_eph'] = eph_classifier(spec)
                for t, fd in desc.items():
                    if fd['r'] and not is_eph(t, fd['o']):      # provenance follows the synchronized stream only
                        rs.update(fd['r'])
                roots = sorted(rs, key=_root_key)
                key = _root_key(roots[0])[2] if roots else k
                if _hit(spec.get('skip'), key):
                    w.ev('emit', st.nid, st.proc.inc, k, None, None)
                    return None
                in_img = None
                if spec.get('pass_img', True):
                    for t, f in frames.items():
                        if f.has_image:
                            in_img = f
                            break

            form = spec.get('form', 'dict')
            if _hit(spec.get('empty'), key) and form != 'callable':
                w.ev('emit', st.nid, st.proc.inc, k, 'empty', {})
                return {}

            def build():
                out = {}
                n = st.n_emit
                st.n_emit = n + 1
                for o in spec.get('out') or [{'name': 'main'}]:
                    name = o['name']
                    if o.get('only') is not None and not _hit(o['only'], key):
                        continue
                    tok = w.new_tok()
                    data = {'tok': tok, 'o': st.nid, 'i': st.proc.inc, 'n': n, 'r': roots}
                    if o.get('pay'):
                        data['pl'] = {'k': key, 's': 'x' * (key % 7), 'u': 'é✓', 'z': None, 'l': [1, 2.5, 'a'],
                                      'big': 2 ** 40 + key}
                    if o.get('nodata'):
                        data = {}
                    img = o.get('img')
                    if img == 'pass':
                        fr = Frame(in_img, data) if in_img is not None else Frame(data)
                    elif img:
                        fr = w.make_image_frame(Frame, np, img, key, data)
                    else:
                        fr = Frame(data)
                    out[name] = fr
                    w.record_emit(st, tok, name, fr, data)
                if form == 'frame':
                    w.ev('emit', st.nid, st.proc.inc, k, 'frame', sorted(out))
                    return next(iter(out.values()))
                w.ev('emit', st.nid, st.proc.inc, k, form, sorted(out))
                return out

            if form == 'callable':
                calls = []

                def deferred():
                    calls.append(w.sched.step)
                    w.ev('deferred_call', st.nid, st.proc.inc, k, len(calls))
                    if _hit(spec.get('defer_none'), key):
                        return None
                    if _hit(spec.get('empty'), key):      # a deferred result may evaluate to an empty set as well
                        w.ev('emit', st.nid, st.proc.inc, k, 'empty', {})
                        return {}
                    return build()

                w.ev('deferred_made', st.nid, st.proc.inc, k)
                return deferred
            return build()

    _sim_filter_cls = SimFilter
    return SimFilter


def _hit(rule, key):
    """rule: None | [mod, rem] | {'set': [...]}"""
    if rule is None or key is None:
        return False
    if isinstance(rule, dict):
        return key in rule['set']
    return key % rule[0] == rule[1]


def _root_key(r):
    a, b, c = r.rsplit('.', 2)
    return (a, int(b), int(c))


class MQWorld:
    def __init__(self, scenario, choice, *, keep_net_events=False, log_level=logging.INFO, max_steps=None):
        self.sc = sc = scenario
        self.choice = choice
        knobs = sc.get('knobs', {})
        self.sched = Scheduler(choice, max_steps=max_steps or sc.get('max_steps', 250_000))
        self.sched.idle_cost_ns = knobs.get('idle_cost_ns', 20_000)
        self.sched.fifo = bool(sc.get('fifo'))
        self.net = Net(self.sched, choice, knobs.get('net'))
        self.net.keep_events = keep_net_events
        self.clock = SimClock(self.sched)
        self.events = []
        self.emits = {}            # tok -> (nid, inc, n, topic, data, img_kind, img_bytes, fmt, shape)
        self.pubs = {}             # (owner_key, mid) -> publish record
        self.tok2pub = {}          # tok -> (owner_key, mid, topic)
        self.reqs = []
        self.procs = {}            # nid -> [Proc per incarnation]
        self.states = {}           # proc -> NodeState
        self.stop_evts = {}        # proc -> SimEvent
        self.outcomes = {}         # (nid, inc) -> ('return'|'raise'|'killed'|'aborted'|'running', exc repr)
        self._tok = 0
        self._rnd = 0
        self.n_in = 0
        self.min_cpu_ns = knobs.get('min_cpu_ns', 100_000)
        self.log_level = log_level
        self.faults_fired = {}
        self.harness_errors = []
        self.patcher = P.Patcher()
        self.simzmq = SimZmq(self.net)
        self.stop_when = None      # callable -> reason|None
        self.lineage = {}          # proc -> capturing client (C18 / C15)
        self.exit_reasons = {}
        self.ostats = _Counter()
        self.stall_info = None
        self.last_activity_ns = 0
        self.net.taps.append(self._tap)

    # -- event log ----------------------------------------------------------------------------------------------------

    ACTIVITY = frozenset(('in', 'pub', 'start', 'fault', 'life', 'emit', 'lineage'))

    def ev(self, kind, *items):
        s = self.sched
        self.events.append((kind, s.step, s.now) + items)
        if kind in self.ACTIVITY:
            self.last_activity_ns = s.now
        s.digest.add(kind, *[i for i in items if not isinstance(i, (dict, list))])

    def new_tok(self):
        self._tok += 1
        return self._tok

    def rndstr(self, count, pool=62, xtra=''):
        self._rnd += 1
        s = f'r{self._rnd:x}'
        return (s + 'z' * count)[:max(count, len(s))]

    def state_of_current(self):
        cur = self.sched.current
        return self.states[cur.proc]

    def describe_frames(self, frames):
        out = {}
        for topic, f in frames.items():
            d = f.data
            tok = d.get('tok') if isinstance(d, dict) else None
            if f.has_image:
                if f.has_jpg:
                    ik, ib = 'jpg', bytes(f.jpg)
                else:
                    ik, ib = 'raw', f.image.tobytes()
                img = (ik, ib, f.format, f.shape, bool(f.is_ro))
            else:
                img = None
            out[topic] = {'tok': tok, 'o': d.get('o'), 'i': d.get('i'), 'n': d.get('n'), 'r': d.get('r') or [],
                          'data': d, 'img': img}
        return out

    def make_image_frame(self, Frame, np, img, key, data):
        h, w_, fmt, mode = img.get('h', 2), img.get('w', 3), img.get('fmt', 'BGR'), img.get('mode', 'raw')
        if fmt == 'GRAY':
            arr = ((np.arange(h * w_, dtype=np.uint32).reshape(h, w_) * 7 + key * 13) % 251).astype(np.uint8)
        else:
            arr = ((np.arange(h * w_ * 3, dtype=np.uint32).reshape(h, w_, 3) * 7 + key * 13) % 251).astype(np.uint8)
        if mode == 'jpg':
            import cv2
            ok, buf = cv2.imencode('.jpg', arr)
            return Frame.from_jpg(bytes(memoryview(buf)), data, h, w_, fmt)
        layout = img.get('layout')
        if layout == 'fortran':
            arr = np.asfortranarray(arr)                 # F-contiguous memory, same logical pixels
        elif layout == 'flipped':
            arr = arr[::-1][::-1] if h > 1 else arr      # a view of a view: C-contiguous again but not owning its data
            arr = arr[:, ::-1][:, ::-1]
        elif layout == 'strided':
            big = np.zeros((h, w_ * 2) + arr.shape[2:], np.uint8)
            big[:, ::2] = arr
            arr = big[:, ::2]                            # non-contiguous view
        if mode == 'ro':
            arr.flags.writeable = False
        return Frame(arr, data, fmt)

    def record_emit(self, st, tok, topic, frame, data):
        if frame.has_image:
            if frame.has_jpg:
                img = ('jpg', bytes(frame.jpg), frame.format, frame.shape)
            else:
                img = ('raw', frame.image.tobytes(), frame.format, frame.shape)
        else:
            img = None
        self.emits[tok] = (st.nid, st.proc.inc, topic, data, img)

    # -- wire tap -----------------------------------------------------------------------------------------------------

    def _tap(self, kind, sock, parts, extra):
        owner = sock.owner
        okey = owner.key if owner is not None else '?'
        if kind == 'pub':
            head = parts[0]
            try:
                env = json.loads(parts[1])
            except Exception:
                return
            mid = env.get('mid')
            sent_to, dropped = extra
            if mid is None or mid < 0:
                self.ev('pubx', okey, sock.sid, mid, env.get('xtra'), [s.owner.key for s in sent_to if s.owner])
                return
            topic = head[1:-1].decode() if head.startswith(b'/') else head[:-1].decode()
            if head == b'//':
                topic = ''
            rec = self.pubs.get((okey, mid))
            if rec is None:
                rec = self.pubs[(okey, mid)] = {'owner': okey, 'mid': mid, 'topics': env.get('topics'), 'msgs': {},
                                                'socks': [], 't0': self.sched.now, 'step0': self.sched.step,
                                                'done': False, 'bal': env.get('bal'), 'to': {}, 'dropped': {},
                                                'fid': None}
            if sock.sid not in rec['socks']:
                rec['socks'].append(sock.sid)
            if topic == '':
                rec['done'] = True
                rec['t1'] = self.sched.now
            else:
                rec['msgs'][topic] = (env.get('xtra'), parts[2:])
                tail = parts[-1] if len(parts) > 2 else b''
                m = _RE_TOK.search(tail)
                if m:
                    self.tok2pub[int(m.group(1))] = (okey, mid, topic)
                elif topic == '_filter':
                    m = _RE_FID.search(tail)
                    if m:
                        rec['fid'] = int(m.group(1))
            for s in sent_to:
                if s.owner is not None:
                    rec['to'].setdefault(s.owner.key, []).append(topic)
            for s in dropped:
                if s.owner is not None:
                    rec['dropped'].setdefault(s.owner.key, []).append(topic)
            self.ev('pub', okey, sock.sid, mid, topic)
        elif kind == 'subrecv_oob':
            frm = extra.b.owner.key if extra is not None and extra.b.owner is not None else '?'
            self.events.append(('subrecv_oob', self.sched.step, self.sched.now, okey, frm))
        elif kind == 'pullrecv':
            try:
                env = json.loads(parts[0])
            except Exception:
                return
            frm = extra.a.owner.key if extra is not None and extra.a.owner is not None else '?'
            ent = self.entry_of_push(extra.a) if extra is not None else None
            self.events.append(('pullrecv', self.sched.step, self.sched.now, okey, frm, env.get('mid'), env.get('eph', 0),
                                bool(env.get('new')), env.get('cid'), None if ent is None else ent.get('eph', 0)))
        elif kind == 'push':
            try:
                env = json.loads(parts[0])
            except Exception:
                return
            self.reqs.append((self.sched.step, self.sched.now, okey, sock.sid, env.get('mid'), env.get('eph', 0),
                              bool(env.get('new')), extra, self.node_of_endpoint(sock.connectors[0].key)
                              if sock.connectors else None, (self.entry_of_push(sock) or {}).get('eph', 0)))
            self.ev('push', okey, sock.sid, env.get('mid'), extra)

    def entry_of_push(self, sock):
        """The consumer's source entry a PUSH socket belongs to (ZMQReceiver creates one PUSH per source with fewer than
        two '?', in the order of the sources). Ground truth for 'is this request channel synchronized', independent of what
        the request says about itself."""
        owner = sock.owner
        if owner is None:
            return None
        cache = self.__dict__.setdefault('_push_entry', {})
        if sock.sid not in cache:
            spec = self.sc['nodes'].get(owner.name) or {}
            entries = [e for e in spec.get('sources') or [] if e.get('eph', 0) < 2]
            pushes = sorted(x.sid for x in self.net.sockets if x.owner is owner and x.type == PUSH)
            for sid, e in zip(pushes, entries):
                cache[sid] = e
            cache.setdefault(sock.sid, None)
        return cache[sock.sid]

    def node_of_endpoint(self, key):
        """Node id that binds the given endpoint key (request endpoints are pub port + 1)."""
        cache = self.__dict__.setdefault('_ep2node', {})
        if not cache:
            for idx, nid in enumerate(self.sc['order']):
                spec = self.sc['nodes'][nid]
                for j in range(spec.get('n_out', 1)):
                    cache[('tcp', node_port(idx, j))] = nid
                    cache[('tcp', node_port(idx, j) + 1)] = nid
                    cache[('ipc', f'simpipe{idx}_{j}')] = nid
                    cache[('ipc', f'simpipe{idx}_{j}.req')] = nid
        return cache.get(key)

    # -- log capture --------------------------------------------------------------------------------------------------

    def _on_log(self, levelno, name, msg, record):
        cur = self.sched.current
        if cur is not None and not cur.is_main and cur.proc is not None:
            p = cur.proc
            if not p.alive or self.sched.aborting:
                return           # output of a killed process / of teardown has no effect
            nid, inc = p.name, p.inc
        else:
            nid, inc = None, 0
        self.events.append(('log', self.sched.step, self.sched.now, nid, inc, levelno, name, msg))

    # -- seams --------------------------------------------------------------------------------------------------------

    def install(self):
        global CURRENT
        CURRENT = self
        b = self.patcher.bind
        zq = P.mod('openfilter.filter_runtime.zeromq')
        mq = P.mod('openfilter.filter_runtime.mq')
        fl = P.mod('openfilter.filter_runtime.filter')
        ut = P.mod('openfilter.filter_runtime.utils')
        lg = P.mod('openfilter.filter_runtime.logging')
        import os as _os
        clock = self.clock
        tmod = SimTimeModule(clock)
        sdt = make_datetime_class(clock)
        k = self.sc.get('knobs', {})

        b(zq, 'zmq', self.simzmq)
        b(zq, 'time_ns', clock.time_ns)
        b(zq, 'sleep', clock.sleep)
        b(zq, 'rndstr', self.rndstr)
        b(zq, 'os', _OsShim(_os))
        for name in ('ZMQ_POLL_TIMEOUT', 'ZMQ_CONN_TIMEOUT', 'ZMQ_EXPLICIT_LINGER', 'ZMQ_CONN_HANDSHAKE',
                     'ZMQ_LOW_LATENCY', 'ZMQ_PUB_HWM', 'ZMQ_PUSH_HWM', 'ZMQ_RECONNECT_IVL'):
            if name in k:
                b(zq, name, k[name])
        if 'ZMQ_POLL_TIMEOUT' in k:
            b(mq, 'POLL_TIMEOUT_MS', k['ZMQ_POLL_TIMEOUT'])
            b(fl, 'POLL_TIMEOUT_MS', k['ZMQ_POLL_TIMEOUT'])
            b(fl, 'POLL_TIMEOUT_SEC', k['ZMQ_POLL_TIMEOUT'] / 1000)
        b(mq, 'time', clock.time)
        b(mq, 'rndstr', self.rndstr)
        StubMetrics.log_text = staticmethod(P.mod('openfilter.filter_runtime.metrics').Metrics.log_text)
        b(mq, 'Metrics', StubMetrics)
        b(fl, 'time', tmod)
        b(fl, 'threading', SimThreading(self.sched, inline_threads=True))
        b(fl, 'rndstr', self.rndstr)
        b(fl, 'scarf_elogger', _NullScarf())
        b(fl, 'datetime', sdt)
        b(ut, 'time', clock.time)
        b(ut, 'sleep', clock.sleep)
        b(ut, 'datetime', sdt)
        b(lg, 'time', clock.time)
        b(lg, 'datetime', sdt)
        # process-local globals
        once = ut.once
        self.sched.proc_locals = [
            (zq.ZMQContext, 'context', lambda: (None, 0)),
            (once, 'cache', dict),
            (fl.Filter, 'emitter', lambda: None),
            (fl.Filter, 'filter_name', lambda: None),
        ]
        for i, (obj, attr, factory) in enumerate(self.sched.proc_locals):
            self.sched._ctl_locals[i] = getattr(obj, attr, None)
        cap = P.capture_handler()
        cap.sink = self._on_log
        logging.getLogger().setLevel(self.log_level)
        P.arm_tripwires(True)

    def uninstall(self):
        global CURRENT
        P.arm_tripwires(False)
        P.capture_handler().sink = None
        # restore controller-side values of the process-local globals
        for i, (obj, attr, factory) in enumerate(self.sched.proc_locals):
            try:
                setattr(obj, attr, self.sched._ctl_locals.get(i))
            except Exception:
                pass
        self.patcher.restore()
        CURRENT = None
        hits = P.tripwire_hits()
        if hits:
            self.harness_errors.extend(hits)

    # -- nodes --------------------------------------------------------------------------------------------------------

    def node_config(self, nid):
        sc = self.sc
        spec = sc['nodes'][nid]
        idx = sc['order'].index(nid)
        cfg = {'id': nid, 'log_path': False}
        srcs = spec.get('sources') or []
        if srcs:
            rendered = [render_source(sc, s) for s in srcs]
            cfg['sources'] = rendered if spec.get('sources_as_list') else ', '.join(rendered)
        n_out = spec.get('n_out', 1 if spec.get('has_output', True) else 0)
        if n_out:
            outs = [bind_addr(idx, j, spec.get('ipc', False)) for j in range(n_out)]
            cfg['outputs'] = outs if spec.get('outputs_as_list') else ', '.join(outs)
        for key in ('outputs_required', 'outputs_balance', 'sources_balance', 'outputs_jpg', 'sources_low_latency',
                    'exit_after', 'sources_timeout', 'outputs_timeout', 'mq_msgid_sync', 'mq_log'):
            if spec.get(key) is not None:
                cfg[key] = spec[key]
        ea = cfg.get('exit_after')
        if isinstance(ea, str) and ea.startswith('@+'):
            # '@+<ms>': an absolute wall-clock time <ms> after the virtual start of the run, written as the text forms
            # the documentation allows (ISO with zone, or local 'yyyy-mm-dd hh:mm:ss.mmm')
            import datetime as _dt
            t = (EPOCH_NS + int(ea[2:]) * MS) / 1e9
            if spec.get('exit_after_local'):
                cfg['exit_after'] = '@' + _dt.datetime.fromtimestamp(t).strftime('%Y-%m-%d %H:%M:%S.%f')[:-3]
            else:
                cfg['exit_after'] = '@' + _dt.datetime.fromtimestamp(t, _dt.timezone.utc).isoformat()
        cfg['outputs_metrics'] = bool(spec.get('outputs_metrics', False))
        cfg['outputs_filter'] = bool(spec.get('outputs_filter', False))
        cfg.update(spec.get('extra_config') or {})
        return cfg

    def start_node(self, nid):
        spec = self.sc['nodes'][nid]
        incs = self.procs.setdefault(nid, [])
        proc = self.sched.new_proc(nid, len(incs))
        incs.append(proc)
        proc.data['node'] = nid
        st = NodeState(nid, spec, proc)
        self.states[proc] = st
        stop_evt = SimEvent(self.sched, f'stop:{proc.key}')
        self.stop_evts[proc] = stop_evt
        cls = self.filter_class_for(nid, spec)
        cfg = self.node_config(nid)
        self.outcomes[(nid, proc.inc)] = ('running', None)
        self.prepare_proc(proc, spec)

        def api_main():
            # a consumer that uses the MQ API directly (as tests and external tools do) with long receive time-outs,
            # instead of Filter.loop_once's 100 ms polling
            fl = P.mod('openfilter.filter_runtime.filter')
            mqm = P.mod('openfilter.filter_runtime.mq')
            srcs = [fl.Filter.parse_topics(render_source(self.sc, s0)) for s0 in spec.get('sources') or []]
            mq = mqm.MQ(srcs, None, nid, outs_metrics=False)
            st.filter = None
            pat = spec.get('proc_ns') or [0]
            to = spec.get('api_timeout_ms')
            k = 0
            while True:
                frames = mq.recv(to)
                if frames is None:
                    continue
                mid = mq.send_state.msg_id if mq.send_state is not None else None
                self.ev('in', nid, proc.inc, k, mid, self.describe_frames(frames))
                self.n_in += 1
                self.sched.sleep_ns(max(pat[k % len(pat)], self.min_cpu_ns), 'process')
                k += 1

        def main():
            self.ev('life', nid, proc.inc, 'run_enter')
            if spec.get('api'):
                return api_main()
            try:
                cls.run(cfg, prop_exit=spec.get('prop_exit'), obey_exit=spec.get('obey_exit'),
                        loop_exc=spec.get('loop_exc'), stop_evt=stop_evt, sig_stop=False)
            except (SimKilled, SimAbort):
                raise
            except BaseException as exc:
                self.outcomes[(nid, proc.inc)] = ('raise', f'{type(exc).__name__}: {exc}')
                self.ev('life', nid, proc.inc, 'run_raise', type(exc).__name__, str(exc)[:200])
                proc.exited = True
                return
            self.outcomes[(nid, proc.inc)] = ('return', None)
            self.ev('life', nid, proc.inc, 'run_return')
            proc.exited = True

        def done(task):
            if task.exc == 'killed':
                self.outcomes[(nid, proc.inc)] = ('killed', None)
            elif task.exc == 'aborted':
                if self.outcomes[(nid, proc.inc)][0] == 'running':
                    self.outcomes[(nid, proc.inc)] = ('aborted', None)

        self.sched.spawn(proc, proc.key, main, on_done=done)
        self.ev('start', nid, proc.inc)
        return proc

    def filter_class_for(self, nid, spec):
        return sim_filter_class()

    def prepare_proc(self, proc, spec):
        """Hook for sub-worlds (lineage client etc.)."""

    def live_proc(self, nid):
        incs = self.procs.get(nid) or []
        return incs[-1] if incs and incs[-1].alive else None

    # -- lifecycle fault injection ------------------------------------------------------------------------------------

    def inject(self, st, stage, k=None):
        plan = st.spec.get('inject')
        if not plan:
            return
        for inj in plan:
            if inj['stage'] != stage:
                continue
            if inj.get('inc', 0) != st.proc.inc:
                continue
            if stage == 'process' and inj.get('k', 0) != k:
                continue
            self.fired(f'inject_{inj["what"]}_{stage}')
            self.ev('inject', st.nid, st.proc.inc, stage, k, inj['what'])
            if inj['what'] == 'exit':
                st.filter.exit(inj.get('reason', 'injected exit'))
            elif inj['what'] == 'raise':
                raise InjectedError(inj.get('msg', f'injected error in {stage}'))
            elif inj['what'] == 'sysexit':
                raise SystemExit(3)

    def fired(self, kind):
        self.faults_fired[kind] = self.faults_fired.get(kind, 0) + 1

    # -- faults -------------------------------------------------------------------------------------------------------

    def schedule_faults(self):
        sched = self.sched
        for f in self.sc.get('faults') or []:
            self._schedule_fault(f)

    def _at(self, f, fn):
        sched = self.sched
        if 'at_step' in f:
            sched.at_step(f['at_step'], fn)
        else:
            t = EPOCH_NS + f['at_ns']
            j = f.get('plus_steps', 0)
            if j:
                sched.at(t, lambda: sched.at_step(sched.step + j, fn))
            else:
                sched.at(t, fn)

    def _schedule_fault(self, f):
        kind = f['kind']
        sched = self.sched
        if kind == 'kill':
            def do():
                proc = self.live_proc(f['node'])
                if proc is None or proc.exited:
                    return
                self.kill(proc)
                self.fired('kill')
                ra = f.get('restart_after_ns')
                if ra is not None:
                    def restart():
                        if self.live_proc(f['node']) is None:
                            self.start_node(f['node'])
                            self.fired('restart')
                            self.ev('fault', 'restart', f['node'])
                    sched.after(ra, restart)
            self._at(f, do)
        elif kind == 'stall':
            def do():
                proc = self.live_proc(f['node'])
                if proc is None or proc.exited:
                    return
                sched.stall(proc, f['dur_ns'])
                self.fired('stall')
                self.ev('fault', 'stall', f['node'], f['dur_ns'])
            self._at(f, do)
        elif kind == 'stop':
            def do():
                proc = self.live_proc(f['node'])
                if proc is None or proc.exited:
                    return
                self.stop_evts[proc].force_set()
                self.fired('graceful_stop')
                self.ev('fault', 'stop', f['node'])
                ra = f.get('restart_after_ns')
                if ra is not None:
                    def maybe_restart():
                        if not proc.exited and proc.alive:
                            sched.after(5 * MS, maybe_restart)       # still shutting down
                            return
                        def restart():
                            cur = self.live_proc(f['node'])
                            if cur is None or cur.exited:
                                if cur is not None:
                                    cur.alive = False                # the old incarnation has left run(): it is gone
                                self.start_node(f['node'])
                                self.fired('graceful_restart')
                                self.ev('fault', 'restart', f['node'])
                        sched.after(ra, restart)
                    sched.after(5 * MS, maybe_restart)
            self._at(f, do)
        elif kind == 'partition':
            def do():
                n = self.net.partition(f['a'], f['b'])
                self.fired('partition')
                self.ev('fault', 'partition', f['a'], f['b'], n)
                def heal():
                    self.net.heal(f['a'], f['b'])
                    self.fired('heal')
                    self.ev('fault', 'heal', f['a'], f['b'])
                sched.after(f['dur_ns'], heal)
            self._at(f, do)
        elif kind == 'delay_spike':
            def do():
                n = 0
                for pipe in self.net.pipes:
                    if not pipe.alive or pipe.a.owner is None or pipe.b.owner is None:
                        continue
                    if pipe.a.owner.name == f['a'] and pipe.b.owner.name == f['b'] and pipe.a.type == f['type']:
                        self.net.delay_spike(pipe, f.get('a_to_b', True), sched.now, sched.now + f['dur_ns'],
                                             f['extra_ns'])
                        n += 1
                if n:
                    self.fired('delay_spike')
                self.ev('fault', 'delay_spike', f['a'], f['b'], n)
            self._at(f, do)
        elif kind == 'sock_error':
            def do():
                proc = self.live_proc(f['node'])
                if proc is None or proc.exited:
                    return
                self.net.fail_next[proc] = f['op']
                self.fired(f'sock_error_{f["op"]}')
                self.ev('fault', 'sock_error', f['node'], f['op'])
            self._at(f, do)
        elif kind == 'clock_skew':
            def do():
                proc = self.live_proc(f['node'])
                if proc is not None:
                    proc.skew_ns += f['skew_ns']
                    self.fired('clock_skew')
            self._at(f, do)
        else:
            raise HarnessError(f'unknown fault kind {kind!r}')

    def kill(self, proc):
        self.ev('fault', 'kill', proc.name, proc.inc)
        self.net.proc_killed(proc)
        self.sched.kill(proc)
        self.outcomes[(proc.name, proc.inc)] = ('killed', None)

    # -- run ----------------------------------------------------------------------------------------------------------

    def run(self):
        sc = self.sc
        self.install()
        reason = None
        try:
            for nid in sc['order']:
                spec = sc['nodes'][nid]
                delay = spec.get('start_delay_ns', 0)
                if delay:
                    self.sched.after(delay, lambda nid=nid: self.start_node(nid))
                else:
                    self.start_node(nid)
            self.schedule_faults()
            t_end = EPOCH_NS + sc.get('t_end_ns', 30 * SEC)
            reason = self.sched.run(t_end, self.stop_when)
            self.stop_reason = reason
            self.final_now = self.sched.now
            self.census = {p.key: [repr(s) for s in self.net.open_sockets(p)]
                           for incs in self.procs.values() for p in incs}
            self.stop_flags = {p.key: self.stop_evts[p].is_set() for incs in self.procs.values() for p in incs}
            # exit announcements (OOB, id -2) that were delivered to a socket but never read by its owner
            self.unread_oob = {}
            for sk in self.net.sockets:
                if sk.owner is None or sk.closed or not sk.inq:
                    continue
                for parts, pipe in sk.inq:
                    head = parts[0] if sk.type == 7 else (parts[1] if len(parts) > 1 else b'')
                    if b'"mid":-2' in head:
                        self.unread_oob.setdefault(sk.owner.key, set()).add('PULL' if sk.type == 7 else 'SUB')
                        break
        finally:
            try:
                self.sched.teardown()
            finally:
                self.uninstall()
        if self.sched.errors:
            self.harness_errors.extend(self.sched.errors)
        return reason
