"""Secrets world (C15): one *subject* filter 'x' of a built-in class (or the base Filter) is constructed, initialised, run
and shut down through the real `K.run(config, stop_evt=..., sig_stop=False)` entry on the simulated network, with the real
OpenFilterLineage attached, and everything it emits while it lives is kept for the oracle:

  * every log record of every simulated process (message text, plus the text of an attached exception),
  * every multipart message the subject puts on the simulated wire (topic envelopes, data JSON, image bytes, requests),
  * every lineage event the subject's emitter hands to the (capturing) client, serialised completely.

The scenario carries a credentialed URI `scheme://user:TOKa<specials>TOKb@host...` somewhere in the subject's configuration;
`check_c15` demands that neither token reaches any of the three sinks - raw, percent-decoded or JSON-unescaped - and that
where a masked form of the URI is shown its scheme and host are still the URI's own.

What runs real: constructor (start_logging, normalize_config, config log line), `init()` (MQ on the simulated network, lineage
START), `run()`'s loop and error handling, `fini()`. `setup/process/shutdown` are real for base Filter (user subclass with a
pass-through process), Util, VideoIn (real VideoReader / MultiVideoReader incl. the reader thread as a scheduler task, on a
stub `vidgear.gears.VideoGear`), VideoOut (real VideoWriter on a stub `WriteGear`) and ImageIn (real polling thread as a
scheduler task; cloud SDKs reported as not installed; it only stats / globs paths that do not exist); for Recorder, ImageOut,
MQTTOut, REST, Webvis (real file system, broker connection, uvicorn) they are harmless stubs of a dynamically created
subclass. The deprecated `Video` class raises in its constructor and is not a subject.

Violation signature: cls, sink ('log' | 'wire' | 'lineage'), place (position class of the URI in the configuration), site
(where it surfaced: 'config_line', '<level>:<first words of the message>', 'frame:<json path>', '<event>_facets'), via
('config_line' | 'config_line_after_normalize_error' | 'exception_text' | 'injected_exception_text' | 'message' |
'frame_data' | 'envelope' | 'facets'), logger (last component of the logger name, logs only), empty_user, pw_opt_like
(the password contains '!name=', which the '!' option grammar of source / output strings takes for an option).
"""

import json
import logging
import re
import sys
import types
from urllib.parse import unquote

from sim import patch as P
from sim import zmqnet
from sim.threads import SimThreading, SimLock
from . import mq as _mq
from .mq import MS, sim_filter_class
from .lineage import LineageWorld
from .oracles import V

SUBJECT = 'x'

CLASSES = {
    'Filter':   ('openfilter.filter_runtime.filter', 'Filter'),
    'Util':     ('openfilter.filter_runtime.filters.util', 'Util'),
    'VideoIn':  ('openfilter.filter_runtime.filters.video_in', 'VideoIn'),
    'VideoOut': ('openfilter.filter_runtime.filters.video_out', 'VideoOut'),
    'ImageIn':  ('openfilter.filter_runtime.filters.image_in', 'ImageIn'),
    'ImageOut': ('openfilter.filter_runtime.filters.image_out', 'ImageOut'),
    'Recorder': ('openfilter.filter_runtime.filters.recorder', 'Recorder'),
    'MQTTOut':  ('openfilter.filter_runtime.filters.mqtt_out', 'MQTTOut'),
    'REST':     ('openfilter.filter_runtime.filters.rest', 'REST'),
    'Webvis':   ('openfilter.filter_runtime.filters.webvis', 'Webvis'),
}
CLASS_NAMES = list(CLASSES)
REAL_SETUP = ('Filter', 'Util', 'VideoIn', 'VideoOut', 'ImageIn')       # classes whose setup/process/shutdown can run real
PRODUCERS = ('Filter', 'Util', 'VideoIn', 'ImageIn', 'REST')            # classes that publish on the simulated network
CONSUMERS = ('Filter', 'Util', 'VideoOut', 'ImageOut', 'Recorder', 'MQTTOut', 'Webvis')   # classes that subscribe


def preload():
    """Import every module the world rebinds (before the worker pool forks)."""
    for modname, _ in CLASSES.values():
        P.mod(modname)
    P.mod('openfilter.observability.lineage')


# -- JSON-able configurations (replay files are JSON: tuples are written as {'__tuple__': [...]}) -------------------------

def decode_config(obj):
    if isinstance(obj, dict):
        if len(obj) == 1 and '__tuple__' in obj:
            return tuple(decode_config(v) for v in obj['__tuple__'])
        return {k: decode_config(v) for k, v in obj.items()}
    if isinstance(obj, list):
        return [decode_config(v) for v in obj]
    return obj


# -- simulated threading.Condition (video_in.Condition, utils.Condition used by utils.Deque) -----------------------------

class SimCondition:
    """threading.Condition on scheduler objects: every acquire / release / wait / notify is a yield point."""

    def __init__(self, sched, lock=None):
        self._s = sched
        self._lock = lock if lock is not None else SimLock(sched, 'cond', reentrant=True)
        self._waiters = []

    def acquire(self, *a, **kw):
        return self._lock.acquire(*a, **kw)

    def release(self):
        self._lock.release()

    def __enter__(self):
        self._lock.acquire()
        return self

    def __exit__(self, *exc):
        return self._lock.__exit__(*exc)

    def wait(self, timeout=None):
        s = self._s
        cur = s.current
        if cur is None or cur.is_main:
            return True
        lk = self._lock
        if lk._owner is not cur:
            raise RuntimeError('cannot wait on un-acquired lock')
        cell = [False]
        self._waiters.append(cell)
        saved = lk._count
        lk._count = 0
        lk._owner = None
        deadline = None if timeout is None else s.now + max(0, int(timeout * 1e9))
        try:
            s.block(lambda: cell[0], deadline, 'cond.wait')
        finally:
            if cell in self._waiters:
                self._waiters.remove(cell)
        if lk._owner is not None:
            s.block(lambda: lk._owner is None, None, 'cond.reacquire')
        lk._owner = cur
        lk._count = saved
        return cell[0]

    def notify(self, n=1):
        for cell in self._waiters[:n]:
            cell[0] = True
        del self._waiters[:n]

    def notify_all(self):
        self.notify(len(self._waiters))

    notifyAll = notify_all


# -- stub vidgear ---------------------------------------------------------------------------------------------------------

class _GearStream:
    def __init__(self, framerate):
        self.framerate = framerate


def _make_fake_gears():
    """A module object standing in for `vidgear.gears`: VideoGear(source=...) delivers a few small frames at a virtual
    frame period and then None; WriteGear(output=..., **params) swallows frames."""
    import numpy as np

    class VideoGear:
        def __init__(self, source=None, **kw):
            w = _mq.CURRENT
            plan = (w.sc['nodes'][SUBJECT].get('gear') or {}) if w is not None else {}
            self.source = source
            self.stream = _GearStream(plan.get('fps', 25.0))
            self._n = plan.get('n_frames', 4)
            self._period = plan.get('period_ms', 40) * MS
            self._k = 0
            self._stopped = False
            if w is not None:
                w.ostats['c15_gear_opened'] += 1

        def start(self):
            return self

        def read(self):
            w = _mq.CURRENT
            if self._stopped or self._k >= self._n:
                return None
            w.sched.sleep_ns(self._period, 'gear.read')
            if self._stopped:
                return None
            k = self._k
            self._k = k + 1
            return ((np.arange(4 * 6 * 3, dtype=np.uint32).reshape(4, 6, 3) * 5 + k * 17) % 251).astype(np.uint8)

        def stop(self):
            self._stopped = True

    class WriteGear:
        def __init__(self, output=None, **params):
            w = _mq.CURRENT
            self.output = output
            self.n = 0
            if w is not None:
                w.ostats['c15_writer_opened'] += 1

        def write(self, image, **kw):
            self.n += 1
            w = _mq.CURRENT
            if w is not None:
                w.ostats['c15_frames_written'] += 1

        def close(self):
            pass

    m = types.ModuleType('vidgear.gears')
    m.VideoGear = VideoGear
    m.WriteGear = WriteGear
    pkg = types.ModuleType('vidgear')
    pkg.gears = m
    return pkg, m


# -- the subject class ----------------------------------------------------------------------------------------------------

_subject_cache = {}


def subject_class(name, mode):
    """A subclass of the real class K. Constructor, normalize_config, init, run, fini are K's own. mode 'real': setup /
    process / shutdown call K's own (after the harness's injection point); mode 'stub': they are harmless stand-ins."""
    key = (name, mode, P.repo_path())
    cls = _subject_cache.get(key)
    if cls is not None:
        return cls
    modname, clsname = CLASSES[name]
    K = getattr(P.mod(modname), clsname)
    Frame = P.mod('openfilter.filter_runtime.frame').Frame
    produces = name in PRODUCERS

    def _ctx():
        w = _mq.CURRENT
        return w, w.state_of_current()

    class Subject(K):
        @classmethod
        def run(cls, config=None, **kw):
            w, st = _ctx()
            if st.spec.get('renorm'):      # "after normalisation": the class is fed its own normalised configuration
                try:
                    config = cls.normalize_config(config)
                    w.ev('life', st.nid, st.proc.inc, 'renorm_ok')
                except Exception as exc:
                    w.ev('life', st.nid, st.proc.inc, 'renorm_rejected', type(exc).__name__)
            w.ev('life', st.nid, st.proc.inc, 'ctor_enter')
            return super().run(config, **kw)

        def init(self, config):
            w, st = _ctx()
            st.filter = self
            w.ev('life', st.nid, st.proc.inc, 'init_enter')
            super().init(config)
            w.ev('life', st.nid, st.proc.inc, 'init_exit')

        def fini(self):
            w, st = _ctx()
            w.ev('life', st.nid, st.proc.inc, 'fini_enter')
            try:
                super().fini()
            finally:
                w.ev('life', st.nid, st.proc.inc, 'fini_exit')

    if mode == 'real':
        def setup(self, config):
            w, st = _ctx()
            w.ev('life', st.nid, st.proc.inc, 'setup_enter')
            w.inject(st, 'setup')
            K.setup(self, config)
            st.setup_done = True
            w.ev('life', st.nid, st.proc.inc, 'setup_exit')

        def shutdown(self):
            w, st = _ctx()
            st.shutdown_calls += 1
            w.ev('life', st.nid, st.proc.inc, 'shutdown')
            K.shutdown(self)

        if name == 'Filter':
            def process(self, frames):       # the user filter: pass-through
                w, st = _ctx()
                k = st.k
                st.k = k + 1
                w.sched.sleep_ns(w.min_cpu_ns, 'process')
                w.inject(st, 'process', k)
                return frames or None
        else:
            def process(self, frames):
                w, st = _ctx()
                k = st.k
                st.k = k + 1
                w.sched.sleep_ns(10 * MS if name in ('VideoIn', 'ImageIn') else w.min_cpu_ns, 'process')
                w.inject(st, 'process', k)
                return K.process(self, frames)
    else:
        def setup(self, config):
            w, st = _ctx()
            w.ev('life', st.nid, st.proc.inc, 'setup_enter')
            w.inject(st, 'setup')
            st.setup_done = True
            w.ev('life', st.nid, st.proc.inc, 'setup_exit')

        def shutdown(self):
            w, st = _ctx()
            st.shutdown_calls += 1
            w.ev('life', st.nid, st.proc.inc, 'shutdown')

        def process(self, frames):
            w, st = _ctx()
            k = st.k
            st.k = k + 1
            w.sched.sleep_ns(20 * MS, 'process')
            w.inject(st, 'process', k)
            if produces:
                return Frame({'meta': {'id': k}})
            return None

    Subject.setup = setup
    Subject.shutdown = shutdown
    Subject.process = process
    Subject.__name__ = clsname           # the class name appears in the config log line and as the lineage job name
    Subject.__qualname__ = clsname
    Subject.__module__ = K.__module__
    _subject_cache[key] = Subject
    return Subject


# -- the world ------------------------------------------------------------------------------------------------------------

class SecretsWorld(LineageWorld):
    keep_lineage_events = True

    def __init__(self, scenario, choice, **kw):
        kw.setdefault('log_level', logging.DEBUG if scenario.get('log_debug') else logging.INFO)
        kw.setdefault('max_steps', scenario.get('max_steps', 60_000))
        super().__init__(scenario, choice, **kw)
        self.wire = []               # (kind, step, now, [parts]) put on the wire by the subject
        self.net.taps.append(self._secret_tap)

    # every message the subject publishes (PUB) or requests with (PUSH)
    def _secret_tap(self, kind, sock, parts, extra):
        owner = sock.owner
        if owner is None or owner.name != SUBJECT or kind not in ('pub', 'push'):
            return
        self.wire.append((kind, self.sched.step, self.sched.now, [bytes(p) for p in parts]))

    def _on_log(self, levelno, name, msg, record):
        ei = getattr(record, 'exc_info', None)
        if ei and ei[1] is not None:
            msg = f'{msg}\n{type(ei[1]).__name__}: {ei[1]}'
        super()._on_log(levelno, name, msg, record)

    def install(self):
        super().install()
        b = self.patcher.bind
        sched = self.sched
        clock = self.clock
        ut = P.mod('openfilter.filter_runtime.utils')
        vi = P.mod('openfilter.filter_runtime.filters.video_in')
        vo = P.mod('openfilter.filter_runtime.filters.video_out')
        ii = P.mod('openfilter.filter_runtime.filters.image_in')
        uf = P.mod('openfilter.filter_runtime.filters.util')
        if self.sc.get('log_debug'):       # the per-message DEBUG records of zeromq.py are gated by this module flag
            b(P.mod('openfilter.filter_runtime.zeromq'), 'DEBUG_ZEROMQ', True)
        thr = SimThreading(sched, inline_threads=False)
        cond = lambda lock=None: SimCondition(sched, lock)
        # VideoIn: reader thread, events, condition, deque (utils.Deque builds a utils.Condition), clocks
        b(vi, 'Thread', thr.Thread)
        b(vi, 'Event', thr.Event)
        b(vi, 'Condition', cond)
        b(vi, 'time_ns', clock.time_ns)
        b(vi, 'sleep', clock.sleep)
        b(vi, 'HAS_BOTO3', False)
        b(ut, 'Condition', cond)
        # VideoOut
        b(vo, 'time_ns', clock.time_ns)
        b(vo, 'strftime', lambda fmt, *a: fmt)
        # ImageIn: polling thread, clocks; cloud SDKs reported as not installed (no real network)
        b(ii, 'Thread', thr.Thread)
        b(ii, 'Event', thr.Event)
        b(ii, 'time', clock.time)
        b(ii, 'time_ns', clock.time_ns)
        b(ii, 'sleep', clock.sleep)
        b(ii, 'HAS_BOTO3', False)
        b(ii, 'HAS_GCS', False)
        # Util
        b(uf, 'time', clock.time)
        b(uf, 'sleep', clock.sleep)
        # vidgear
        pkg, gears = _make_fake_gears()
        b(sys.modules, 'vidgear', pkg, must_exist=False)
        b(sys.modules, 'vidgear.gears', gears, must_exist=False)
        # libzmq refuses a tcp endpoint with user info (EINVAL on connect, ENODEV on bind) and pyzmq appends the address
        # to the error text (checked against pyzmq 27.1 / libzmq 4.3.5)
        orig_connect = zmqnet.Socket.connect
        orig_bind = zmqnet.Socket.bind

        def connect(sock, addr):
            if addr.startswith('tcp://') and '@' in addr:
                sock.net.sched.block(label='connect')
                raise zmqnet.ZMQError(22, f'Invalid argument (addr={addr!r})')
            return orig_connect(sock, addr)

        def bind(sock, addr):
            if addr.startswith('tcp://') and '@' in addr:
                sock.net.sched.block(label='bind')
                raise zmqnet.ZMQError(19, f'No such device (addr={addr!r})')
            return orig_bind(sock, addr)

        b(zmqnet.Socket, 'connect', connect)
        b(zmqnet.Socket, 'bind', bind)

    # -- nodes ----------------------------------------------------------------------------------------------------------

    def filter_class_for(self, nid, spec):
        if nid != SUBJECT:
            return sim_filter_class()
        return subject_class(spec['cls'], spec.get('mode', 'stub'))

    def node_config(self, nid):
        if nid != SUBJECT:
            return super().node_config(nid)
        return decode_config(self.sc['nodes'][nid]['config'])


# -- oracle ---------------------------------------------------------------------------------------------------------------

_RE_UESC = re.compile(r'\\u([0-9a-fA-F]{4})')
_RE_ANSI = re.compile(r'\x1b\[[0-9;]*m')
_RE_CFG_LINE = re.compile(r'^\w+\(config=')
_RE_WORD = re.compile(r"^[A-Za-z][A-Za-z_\-]*[:,]?$")
_RE_OPT_LIKE = re.compile(r'!(?:no-)?[A-Za-z_]\w*=')     # Filter.parse_options() takes such a tail for an option
_RE_MASKED = re.compile(r'([a-zA-Z][a-zA-Z0-9+.\-]*)://(?:[^\s:@/*]*:)?\*\*\*\*@([^\s/?#,;!\'")\]}>\\]+)')


def _variants(text):
    yield text
    if '%' in text:
        u = unquote(text)
        if u != text:
            yield u
            if '%' in u:
                u2 = unquote(u)
                if u2 != u:
                    yield u2
    if '\\u' in text:
        yield _RE_UESC.sub(lambda m: chr(int(m.group(1), 16)), text)


def find_token(text, toks):
    """(token, excerpt) if one of the tokens occurs in the text raw, percent-decoded or JSON-unescaped."""
    for v in _variants(text):
        for t in toks:
            i = v.find(t)
            if i >= 0:
                return t, v[max(0, i - 70):i + len(t) + 50]
    return None


def log_site(levelno, msg):
    msg = _RE_ANSI.sub('', msg)
    if _RE_CFG_LINE.match(msg):
        return 'config_line'
    words = []
    for wd in msg.split():
        wd = wd.strip('\'"()[]')
        if not _RE_WORD.match(wd):
            break
        words.append(wd.rstrip(':,').lower())
        if len(words) == 3 or wd[-1] in ':,':
            break
    return f'{logging.getLevelName(levelno).lower()}:' + ' '.join(words)


def _json_paths(obj, toks, path=''):
    """Paths of the JSON values (or keys) that contain a token."""
    out = []
    if isinstance(obj, dict):
        for k, v in obj.items():
            p = f'{path}.{k}' if path else str(k)
            if isinstance(k, str) and find_token(k, toks):
                out.append(p + '(key)')
            out.extend(_json_paths(v, toks, p))
    elif isinstance(obj, list):
        for i, v in enumerate(obj):
            out.extend(_json_paths(v, toks, f'{path}[]'))
    elif isinstance(obj, str):
        if find_token(obj, toks):
            out.append(path)
    return out


def _masked_check(text, info, sink, stats):
    """Where a masked form of *our* URI is shown (recognised by its host, which is unique to the URI) the scheme must
    still be the URI's own. Returns a description of what is unreadable, or None."""
    if '****' not in text:
        return None
    bad = None
    for m in _RE_MASKED.finditer(text):
        host = m.group(2)
        if host == info['host'] or host.startswith(info['host'] + ':'):
            stats[f'c15_masked_uri_seen_{sink}'] += 1
            if m.group(1) != info['scheme']:
                bad = f'masked form {m.group(0)!r} shows scheme {m.group(1)!r} instead of {info["scheme"]!r}'
    return bad


def check_c15(world):
    sc = world.sc
    info = sc['c15']
    toks = [info['toka'], info['tokb']]
    btoks = [t.encode() for t in toks]
    stats = world.ostats
    cls = info['cls']
    place = info['place']
    empty_user = bool(info['empty_user'])
    # a password containing '!name=' collides with the '!' option grammar of source / output strings: the class itself
    # tears such a URI apart (part of the password becomes an option value), which no URI mask can recognise afterwards
    pw_opt_like = bool(_RE_OPT_LIKE.search(info['toka'] + info['specials'] + info['tokb']))
    # likewise ';' (topic separator) and ',' (list separator) inside the password collide with the source / output grammar
    pw_delim = ';' if ';' in info['specials'] else ',' if ',' in info['specials'] else None
    found = {}
    x_life = [e[5] for e in world.events if e[0] == 'life' and e[3] == SUBJECT]
    ctor_ran = 'ctor_enter' in x_life
    init_ran = 'init_enter' in x_life
    stats['c15_ctor_ran'] += int(ctor_ran)
    stats['c15_init_ran'] += int(init_ran)
    stats['c15_init_done'] += int('init_exit' in x_life)
    stats['c15_setup_done'] += int('setup_exit' in x_life)

    def add(oracle, sink, site, message, step, now, **extra):
        sig = dict(cls=cls, sink=sink, place=place, site=site, empty_user=empty_user, pw_opt_like=pw_opt_like,
                   pw_delim=pw_delim, **extra)
        k = (oracle, json.dumps(sig, sort_keys=True))
        if k not in found:
            found[k] = V('C15', oracle, message, step, now, **sig)

    # (a) log records of every process
    for e in world.events:
        if e[0] != 'log':
            continue
        _, step, now, nid, inc, levelno, name, msg = e
        stats['c15_log_records_searched'] += 1
        short = name.rsplit('.', 1)[-1]
        hit = find_token(msg, toks)
        if hit is not None:
            site = log_site(levelno, msg)
            if site == 'config_line':
                via = 'config_line' if init_ran or nid != SUBJECT else 'config_line_after_normalize_error'
            elif levelno >= logging.ERROR and short == 'filter':
                via = 'injected_exception_text' if msg.startswith('could not open ') else 'exception_text'
            else:
                via = 'message'
            add('leak_log', 'log', site,
                f'{cls} ({place}, {info["lifecycle"]}): password token {hit[0]} in a {logging.getLevelName(levelno)} '
                f'record of logger {name} (process {nid}): ...{hit[1]}...', step, now, logger=short, via=via)
        else:
            bad = _masked_check(msg, info, 'log', stats)
            if bad:
                add('uri_unreadable', 'log', log_site(levelno, msg), f'{cls} ({place}): {bad} in log record: {msg[:300]}',
                    step, now, logger=short)

    # (b) everything the subject put on the wire
    for kind, step, now, parts in world.wire:
        stats['c15_wire_messages_searched'] += 1
        head = parts[0] if kind == 'pub' else b''
        topic = head.decode('utf-8', 'replace').strip('/') if kind == 'pub' else 'request'
        for i, part in enumerate(parts):
            text = None
            hit = None
            if any(t in part for t in btoks) or b'%' in part or b'\\u' in part or b'****' in part:
                text = part.decode('utf-8', 'replace')
                hit = find_token(text, toks)
            if hit is not None:
                where = ''
                try:
                    paths = _json_paths(json.loads(text), toks)
                    if paths:
                        where = paths[0]
                except Exception:
                    pass
                # multipart layout of a publish: [topic head, envelope JSON, frame data JSON, image bytes]; a request is
                # one JSON envelope
                if kind == 'push':
                    site, via = f'request:{where}', 'envelope'
                elif i == 0:
                    site, via = 'topic_name', 'envelope'
                elif i == 1:
                    site, via = f'envelope:{where}', 'envelope'
                else:
                    site, via = f'frame:{where or "part%d" % i}', 'frame_data'
                add('leak_wire', 'wire', site,
                    f'{cls} ({place}): password token {hit[0]} in a message the subject put on the wire ({kind}), topic '
                    f'{topic!r}, part {i} {where}: ...{hit[1]}...', step, now, via=via)
            elif text is not None:
                bad = _masked_check(text, info, 'wire', stats)
                if bad:
                    add('uri_unreadable', 'wire', f'{topic}:part{i}', f'{cls} ({place}): {bad} on the wire: {text[:300]}',
                        step, now)

    # (c) lineage events of the subject, serialised completely
    import attr
    for key, et, event in world.lineage_raw:
        if not key.startswith(SUBJECT + '#'):
            continue
        stats['c15_lineage_events_searched'] += 1
        try:
            d = attr.asdict(event)
        except Exception:
            d = {'repr': repr(event)}
        text = json.dumps(d, default=str, ensure_ascii=False)
        hit = find_token(text, toks)
        if hit is not None:
            paths = _json_paths(json.loads(json.dumps(d, default=str)), toks)
            add('leak_lineage', 'lineage', f'{et.lower()}_facets',
                f'{cls} ({place}): password token {hit[0]} in lineage {et} event at {", ".join(paths[:4])}: ...{hit[1]}...',
                None, None, via='facets')
        else:
            bad = _masked_check(text, info, 'lineage', stats)
            if bad:
                add('uri_unreadable', 'lineage', f'{et.lower()}_facets', f'{cls} ({place}): {bad} in lineage {et} event',
                    None, None)
    stats['c15_violations'] += len(found)
    return [found[k] for k in sorted(found)]
