"""Scenario generator for the MQ world. Every decision is a draw from the choice source (stream 'gen' for the
scenario, 'fault' for the fault plan) and 0 is always the simplest outcome."""

from .mq import MS, SEC

SHAPES = ('chain', 'tee', 'tee_rejoin', 'join', 'balance')


class Profile:
    """What a property's statement ranges over (DESIGN.md section 4: profiles)."""

    def __init__(self, name, **kw):
        self.name = name
        self.shapes = kw.get('shapes', SHAPES[:4])
        self.max_frames = kw.get('max_frames', 30)
        self.min_frames = kw.get('min_frames', 4)
        self.skip = kw.get('skip', True)                    # None-returning filters allowed
        self.skip_on_rejoin = kw.get('skip_on_rejoin', True)
        self.src_skip = kw.get('src_skip', True)
        self.forms = kw.get('forms', ('dict', 'frame', 'callable'))
        self.empty = kw.get('empty', True)
        self.subs = kw.get('subs', ('all', 'star', 'explicit', 'remap', 'main_only', 'absent'))
        self.ephemeral = kw.get('ephemeral', 0)             # max side listeners per publisher
        self.required = kw.get('required', 'maybe')         # 'always' | 'maybe' | 'never'
        self.faults = kw.get('faults', ())                  # fault kinds allowed
        self.max_faults = kw.get('max_faults', 2)
        self.fault_free_pct = kw.get('fault_free_pct', 30)
        self.max_proc_ms = kw.get('max_proc_ms', 400)
        self.lat_max_ms = kw.get('lat_max_ms', 50)
        self.images = kw.get('images', True)
        self.hwm_small = kw.get('hwm_small', False)
        self.knob_variation = kw.get('knob_variation', True)
        self.max_relays = kw.get('max_relays', 3)
        self.settle_ns = kw.get('settle_ns', 1500 * MS)
        self.t_end_s = kw.get('t_end_s', 60)
        self.endless = kw.get('endless', False)
        self.low_latency = kw.get('low_latency', True)
        self.hidden_sys = kw.get('hidden_sys', True)        # outputs_filter / outputs_metrics on sometimes
        self.staggered_start = kw.get('staggered_start', True)
        self.eph_kinds = kw.get('eph_kinds', (1, 2))
        self.poll_choices = kw.get('poll_choices', (100, 20, 50, 250))
        self.api_consumers = kw.get('api_consumers', False)


def _g(ch, n):
    return ch.draw('gen', n)


def _chance(ch, num, den):
    return ch.chance('gen', num, den)


def gen_proc_pattern(ch, prof):
    """Processing-time pattern in ns (cycled over calls)."""
    kind = ch.weighted('gen', [5, 3, 2, 1])
    cap = prof.max_proc_ms
    if kind == 0:
        return [0]
    if kind == 1:
        return [ch.rng_int('gen', 0, min(cap, 20)) * MS]
    if kind == 2:
        return [ch.rng_int('gen', 0, cap) * MS]
    return [ch.rng_int('gen', 0, cap) * MS for _ in range(ch.rng_int('gen', 2, 4))]


def gen_img(ch, prof):
    if not prof.images or not _chance(ch, 1, 2):
        return None
    mode = ch.pick('gen', ['raw', 'jpg', 'ro'])
    fmt = ch.pick('gen', ['BGR', 'RGB', 'GRAY'])
    img = {'mode': mode, 'fmt': fmt, 'h': ch.rng_int('gen', 1, 6), 'w': ch.rng_int('gen', 1, 8)}
    if mode != 'jpg' and _chance(ch, 1, 3):
        img['layout'] = ch.pick('gen', ['fortran', 'strided', 'flipped'])      # same pixels, other memory layout
    return img


def gen_outs(ch, prof, base, img=None, allow_extra=True):
    """Output topic list of a node. `base` is the main topic name."""
    outs = [{'name': base}]
    if img is not None:
        outs[0]['img'] = img
    if _chance(ch, 1, 3):
        outs[0]['pay'] = 1
    if allow_extra and _chance(ch, 1, 3):
        o = {'name': base + 'x' if base != 'main' else 'x'}
        if _chance(ch, 1, 3):
            o['only'] = [2, ch.rng_int('gen', 0, 1)]       # topic present only under some ids
        if _chance(ch, 1, 4):
            o['nodata'] = 1
            o['img'] = {'mode': 'raw', 'fmt': 'GRAY', 'h': 1, 'w': 2}
        outs.append(o)
    if allow_extra and _chance(ch, 1, 4):
        outs.append({'name': '_' + (base if base != 'main' else 'h')})
    return outs


def gen_sub(ch, prof, up_outs, rename_to=None):
    """Subscription of a consumer to an upstream with output topics `up_outs`.
    rename_to: prefix that delivered names must carry (to stay unique at a join) or None."""
    names = [o['name'] for o in up_outs]
    kinds = [k for k in prof.subs]
    if rename_to is not None:
        kinds = [k for k in kinds if k in ('remap', 'explicit', 'absent')] or ['remap']
    kind = ch.pick('gen', kinds)
    if kind == 'all':
        return None
    if kind == 'star':
        return '*'
    if kind == 'main_only':
        if 'main' in names:
            return [['main', 'main']]
        return [[names[0], names[0]]]
    chosen = [names[0]] + [n for n in names[1:] if _chance(ch, 1, 2)]
    sub = []
    for i, n in enumerate(chosen):
        if rename_to is not None:
            dst = f'{rename_to}{i}' if i else rename_to
        elif kind == 'remap' and _chance(ch, 1, 2):
            dst = f'm{i}{n.strip("_")}'
        else:
            dst = n
        sub.append([n, dst])
    if kind == 'absent':
        sub.append(['nope', (rename_to or '') + 'nope'])
    return sub


def gen_behaviour(ch, prof, spec, *, may_skip, is_src=False):
    if may_skip and prof.skip and _chance(ch, 1, 3):
        mod = ch.rng_int('gen', 2, 5)
        spec['skip'] = [mod, ch.rng_int('gen', 0, mod - 1)]
    spec['form'] = ch.pick('gen', list(prof.forms))
    if spec['form'] == 'frame':
        # a lone Frame always arrives as 'main'
        spec['out'] = [dict(spec['out'][0], name='main')]
    if spec['form'] == 'callable' and may_skip and prof.skip and _chance(ch, 1, 2):
        mod = ch.rng_int('gen', 2, 5)
        spec['defer_none'] = [mod, ch.rng_int('gen', 0, mod - 1)]
        if _chance(ch, 1, 2):
            # a run of consecutive frames for which the deferred result is None: the filter's send side stays behind
            # what its receive side has delivered for a while (and a fault may land inside that window)
            a = ch.rng_int('gen', 1, 8)
            n = ch.rng_int('gen', 3, 10) if not _chance(ch, 1, 2) else 200      # 200: from frame a to the end of the run
            spec['defer_none'] = {'set': list(range(a, a + n))}
    if prof.empty and spec['form'] != 'frame' and _chance(ch, 1, 6):
        mod = ch.rng_int('gen', 3, 6)
        spec['empty'] = [mod, ch.rng_int('gen', 0, mod - 1)]
    if not is_src:
        spec['proc_ns'] = gen_proc_pattern(ch, prof)
    if _chance(ch, 1, 4):
        spec['outputs_jpg'] = ch.pick('gen', [True, False])
    if any(isinstance(o.get('img'), dict) and o['img'].get('layout') for o in spec.get('out') or []) and _chance(ch, 2, 3):
        spec['outputs_jpg'] = False          # odd memory layouts matter when the raw pixels go on the wire
    if prof.hidden_sys and _chance(ch, 1, 4):
        spec['outputs_filter'] = True
    if prof.hidden_sys and _chance(ch, 1, 6):
        spec['outputs_metrics'] = True
    if prof.low_latency and not is_src and _chance(ch, 1, 6):
        spec['sources_low_latency'] = True
    if _chance(ch, 1, 8):
        spec['outputs_as_list'] = True
        spec['sources_as_list'] = True


def gen_knobs(ch, prof):
    k = {'net': {}}
    net = k['net']
    lat_hi = ch.pick('gen', [2, 1, 10, prof.lat_max_ms, prof.lat_max_ms])
    net['lat_min_ns'] = 50_000
    net['lat_max_ns'] = max(1, min(lat_hi, prof.lat_max_ms)) * MS
    net['conn_max_ns'] = ch.pick('gen', [5, 1, 50, 300, 2000]) * MS
    if prof.knob_variation:
        if _chance(ch, 1, 5):
            k['ZMQ_POLL_TIMEOUT'] = ch.pick('gen', list(prof.poll_choices))
        if _chance(ch, 1, 6):
            k['ZMQ_CONN_HANDSHAKE'] = False
        if _chance(ch, 1, 6):
            k['ZMQ_LOW_LATENCY'] = True
        if _chance(ch, 1, 6):
            k['ZMQ_EXPLICIT_LINGER'] = ch.pick('gen', [20, 0, 100])
        if _chance(ch, 1, 8):
            k['ZMQ_CONN_TIMEOUT'] = ch.pick('gen', [5000, 1000, 2000])
    if prof.hwm_small and _chance(ch, 1, 3):
        net['rcvhwm'] = ch.pick('gen', [0, 1, 3, 8])
        k['ZMQ_PUB_HWM'] = ch.pick('gen', [4, 1, 2, 8])
    k['idle_cost_ns'] = ch.pick('gen', [20_000, 5_000, 50_000])
    return k


def gen_scenario(ch, prof):
    shape = ch.pick('gen', list(prof.shapes))
    sc = {'shape': shape, 'profile': prof.name, 'nodes': {}, 'order': [], 'knobs': gen_knobs(ch, prof)}
    nodes = sc['nodes']
    order = sc['order']
    sc['n_frames'] = ch.rng_int('gen', prof.min_frames, prof.max_frames)

    def add(nid, spec):
        nodes[nid] = spec
        order.append(nid)
        return spec

    def source(nid, base='main'):
        spec = {'src': True, 'period_ns': ch.pick('gen', [1, 0, 5, 30, 120]) * MS}
        spec['out'] = gen_outs(ch, prof, base, gen_img(ch, prof))
        gen_behaviour(ch, prof, spec, may_skip=prof.src_skip, is_src=True)
        if prof.endless:
            spec['n_frames'] = 10 ** 9
        return add(nid, spec)

    def relay(nid, up, base='main', may_skip=True, rename_to=None, sub_kinds=None):
        upspec = nodes[up]
        sub = gen_sub(ch, prof, upspec['out'], rename_to=None)
        spec = {'sources': [{'from': up, 'sub': sub}]}
        img = 'pass' if _chance(ch, 1, 2) else gen_img(ch, prof)
        spec['out'] = gen_outs(ch, prof, base, img)
        gen_behaviour(ch, prof, spec, may_skip=may_skip)
        return add(nid, spec)

    def sink(nid, ups, unique=False):
        srcs = []
        for i, up in enumerate(ups):
            upspec = nodes[up]
            rename = f'{up}' if unique and not upspec.get('_unique_names') else None
            if unique and upspec.get('_unique_names'):
                # producer-side naming keeps delivered names unique: any form without renaming collisions
                sub = gen_sub(ch, prof, upspec['out'], rename_to=None)
                if sub == '*' and i > 0:
                    sub = None       # at most one '*' source per consumer (system hidden topics would collide)
            else:
                sub = gen_sub(ch, prof, upspec['out'], rename_to=rename)
            srcs.append({'from': up, 'sub': sub})
        spec = {'sources': srcs, 'has_output': False, 'proc_ns': gen_proc_pattern(ch, prof)}
        if prof.low_latency and _chance(ch, 1, 6):
            spec['sources_low_latency'] = True
        return add(nid, spec)

    if shape == 'chain':
        source('s0')
        prev = 's0'
        for i in range(ch.rng_int('gen', 0, prof.max_relays)):
            relay(f'r{i}', prev)
            prev = f'r{i}'
        sink('k', [prev])
    elif shape == 'tee':
        source('s0')
        prev = 's0'
        if _chance(ch, 1, 3):
            relay('r0', prev)
            prev = 'r0'
        nb = ch.rng_int('gen', 2, 3)
        for i in range(nb):
            if _chance(ch, 1, 2):
                relay(f'b{i}', prev)
                sink(f'k{i}', [f'b{i}'])
            else:
                sink(f'k{i}', [prev])
    elif shape == 'tee_rejoin':
        source('s0')
        nb = ch.rng_int('gen', 2, 3)
        branches = []
        for i in range(nb):
            producer_names = _chance(ch, 1, 2)
            spec = relay(f'b{i}', 's0', base=(f'b{i}' if producer_names else 'main'),
                         may_skip=prof.skip_on_rejoin)
            if spec['form'] == 'frame':
                producer_names = False
            if producer_names:
                spec['_unique_names'] = True
            if _chance(ch, 1, 4):
                # a second hop on this branch
                spec2 = relay(f'c{i}', f'b{i}', base=(f'c{i}' if producer_names else 'main'),
                              may_skip=prof.skip_on_rejoin)
                if spec2['form'] == 'frame':
                    spec2.pop('_unique_names', None)
                elif producer_names:
                    spec2['_unique_names'] = True
                branches.append(f'c{i}')
            else:
                branches.append(f'b{i}')
        if _chance(ch, 1, 3):
            # the joiner itself forwards to a final sink
            jspec = sink('j', branches, unique=True)
            jspec['has_output'] = True
            jspec['out'] = gen_outs(ch, prof, 'main')
            gen_behaviour(ch, prof, jspec, may_skip=True)
            sink('k', ['j'])
        else:
            sink('j', branches, unique=True)
    elif shape == 'join':
        ns = ch.rng_int('gen', 2, 3)
        ups = []
        for i in range(ns):
            spec = source(f's{i}', base=f's{i}')
            if spec['form'] != 'frame':
                spec['_unique_names'] = True
            up = f's{i}'
            if _chance(ch, 1, 3):
                r = relay(f'r{i}', up, base=f'r{i}', may_skip=prof.skip_on_rejoin)
                if r['form'] != 'frame':
                    r['_unique_names'] = True
                up = f'r{i}'
            ups.append(up)
        sink('j', ups, unique=True)
    elif shape == 'eph_rejoin':
        # the docstring topology of zeromq.py: A -> B -> C ; A ->? D -> E ; F: [C, E?] ; G: F
        source('s0')
        b = relay('b', 's0', base='main', may_skip=False)
        c = relay('c', 'b', base='c', may_skip=False)
        c['_unique_names'] = c['form'] != 'frame'
        d = relay('d', 's0', base='main', may_skip=True)
        nodes['d']['sources'][0]['eph'] = 1
        nodes['d']['proc_ns'] = [ch.pick('gen', [0, 50, 300, 2000]) * MS]
        e = relay('e', 'd', base='e', may_skip=True)
        e['_unique_names'] = e['form'] != 'frame'
        csub = gen_sub(ch, prof, nodes['c']['out'], rename_to=None if c['_unique_names'] else 'c')
        esub = gen_sub(ch, prof, nodes['e']['out'], rename_to=None if e['_unique_names'] else 'e')
        if csub == '*' and esub == '*':
            esub = None
        f = {'sources': [{'from': 'c', 'sub': csub}, {'from': 'e', 'sub': esub, 'eph': 1}],
             'out': gen_outs(ch, prof, 'main'), 'proc_ns': gen_proc_pattern(ch, prof)}
        gen_behaviour(ch, prof, f, may_skip=False)
        add('f', f)
        sink('g', ['f'])
    elif shape == 'balance':
        spec = source('s0')
        nb = ch.rng_int('gen', 2, 4)
        spec['n_out'] = nb
        spec['outputs_balance'] = True
        spec['form'] = 'dict' if spec['form'] == 'frame' else spec['form']
        workers = []
        for i in range(nb):
            w = {'sources': [{'from': 's0', 'out_idx': i, 'sub': None}]}
            w['out'] = [{'name': 'main', 'img': 'pass'}]
            w['proc_ns'] = gen_proc_pattern(ch, prof)
            w['form'] = 'dict'
            add(f'w{i}', w)
            workers.append(f'w{i}')
        j = {'sources': [{'from': wi, 'sub': None} for wi in workers], 'sources_balance': True, 'has_output': False,
             'proc_ns': gen_proc_pattern(ch, prof)}
        add('j', j)
        if _chance(ch, 1, 2):
            # the rejoin forwards the stream (and may drop some frames itself) to a final sink
            j['has_output'] = True
            j['out'] = [{'name': 'main', 'img': 'pass'}]
            j['form'] = 'dict'
            if prof.skip and _chance(ch, 1, 2):
                mod = ch.rng_int('gen', 2, 4)
                j['skip'] = [mod, ch.rng_int('gen', 0, mod - 1)]
            elif prof.skip and _chance(ch, 1, 2):
                # decimating through a deferred result: process() returns a callable that yields None for some frames
                mod = ch.rng_int('gen', 2, 4)
                j['form'] = 'callable'
                j['defer_none'] = [mod, ch.rng_int('gen', 0, mod - 1)]
            add('k', {'sources': [{'from': 'j', 'sub': None}], 'has_output': False, 'proc_ns': gen_proc_pattern(ch, prof)})
    else:
        raise ValueError(shape)

    # required outputs
    consumers = {}
    for nid in order:
        for s in nodes[nid].get('sources') or []:
            if not s.get('eph'):
                consumers.setdefault(s['from'], []).append(nid)
    for up, cons in consumers.items():
        if prof.required == 'always' or (prof.required == 'maybe' and _chance(ch, 1, 2)):
            nodes[up]['outputs_required'] = ', '.join(cons) if _chance(ch, 1, 2) else list(cons)

    # ephemeral side listeners
    if prof.ephemeral:
        pubs = [nid for nid in order if nodes[nid].get('has_output', True) and not nodes[nid].get('side')]
        n = 0
        for up in pubs:
            for _ in range(ch.rng_int('gen', 0, prof.ephemeral)):
                eph = ch.pick('gen', list(prof.eph_kinds))
                if nodes[up].get('outputs_balance'):
                    eph = 2      # the documentation rules out '?' taps on load-balanced outputs; '??' watchers are fine
                sub = gen_sub(ch, prof, nodes[up]['out'])
                e = {'sources': [{'from': up, 'sub': sub, 'eph': eph}], 'has_output': False,
                     'proc_ns': [ch.pick('gen', [0, 50, 500, 5000, 10 ** 6]) * MS], 'side': True}
                if _chance(ch, 1, 4):
                    e['start_delay_ns'] = ch.pick('gen', [100, 10, 700, 2500]) * MS
                add(f'e{n}', e)
                n += 1

    # mixed sources: a synchronized consumer that additionally listens ephemerally to another publisher, the ephemeral
    # source listed before or after the synchronized ones
    if prof.ephemeral and _chance(ch, 1, 3):
        cands = [n for n in order if not nodes[n].get('side') and not nodes[n].get('sources_balance') and
                 any(not s.get('eph') for s in nodes[n].get('sources') or [])]
        if cands:
            n = ch.pick('gen', cands)
            idx = order.index(n)
            have = {s['from'] for s in nodes[n]['sources']}
            pubs2 = [q for q in order[:idx] if q not in have and nodes[q].get('has_output', True) and
                     not nodes[q].get('side') and not nodes[q].get('outputs_balance')]
            if _chance(ch, 1, 2):
                # attached to the SAME publisher twice: synchronized for its topics, ephemerally for (another) one
                same = [s['from'] for s in nodes[n]['sources'] if not s.get('eph') and
                        not nodes[s['from']].get('outputs_balance')]
                pubs2 = same or pubs2
            if pubs2:
                q = ch.pick('gen', pubs2)
                outs = nodes[q]['out']
                sub = [[outs[-1]['name'] if q in have else outs[0]['name'], f'x{q}']]
                entry = {'from': q, 'sub': sub, 'eph': ch.pick('gen', list(prof.eph_kinds))}
                if _chance(ch, 1, 2):
                    nodes[n]['sources'].insert(0, entry)
                else:
                    nodes[n]['sources'].append(entry)
                if _chance(ch, 1, 2):
                    # make the mixed consumer the slow one, so that a publisher that wrongly stopped waiting for it shows
                    nodes[n]['proc_ns'] = [ch.pick('gen', [150, 300]) * MS]

    # some sinks use the MQ API directly with long (or no) receive time-outs instead of Filter.loop_once's polling
    if prof.api_consumers:
        for nid in order:
            sp = nodes[nid]
            if not sp.get('has_output', True) and sp.get('sources') and not sp.get('sources_balance') and _chance(ch, 1, 5):
                sp['api'] = True
                sp['api_timeout_ms'] = ch.pick('gen', [None, 1000, 5000, 300])

    if prof.staggered_start and _chance(ch, 1, 3):
        for nid in order:
            if _chance(ch, 1, 2):
                nodes[nid]['start_delay_ns'] = ch.pick('gen', [10, 1, 120, 600, 2500]) * MS

    sc['faults'] = gen_faults(ch, prof, sc)
    sc['settle_ns'] = prof.settle_ns
    sc['t_end_ns'] = prof.t_end_s * SEC
    return sc


def gen_faults(ch, prof, sc):
    kinds = list(prof.faults)
    if not kinds:
        return []
    if ch.chance('fault', prof.fault_free_pct, 100):
        return []
    out = []
    order = sc['order']
    nf = sc['n_frames']
    # rough active span of the run: frames * (source period + a bit)
    span_ms = max(50, min(8000, nf * 40))
    # the stream only starts flowing once connections and handshakes are through (slow links: many hundred ms): the
    # window faults are drawn from covers start-up AND the active phase
    net = (sc.get('knobs') or {}).get('net') or {}
    span_ms += (net.get('conn_max_ns', 5 * MS) + 4 * net.get('lat_max_ns', 2 * MS)) // MS + 200
    if 'drop_pub' in kinds and ch.chance('fault', 1, 3):
        sc['knobs']['net']['drop_pub'] = (1, ch.pick('fault', [20, 6, 50]))
    n = ch.rng_int('fault', 1, prof.max_faults)
    timed = [k for k in kinds if k != 'drop_pub']
    if not timed:
        return out
    for _ in range(n):
        kind = ch.pick('fault', timed)
        at = ch.rng_int('fault', 0, span_ms) * MS
        plus = ch.rng_int('fault', 0, 40)
        if kind == 'kill_side' or kind == 'stall_side':
            side = [n for n in order if sc['nodes'][n].get('side')]
            if not side:
                continue
            node = ch.pick('fault', side)
            if kind == 'kill_side':
                out.append({'kind': 'kill', 'node': node, 'at_ns': at, 'plus_steps': plus, 'restart_after_ns': None})
            else:
                out.append({'kind': 'stall', 'node': node, 'at_ns': at, 'plus_steps': plus,
                            'dur_ns': ch.pick('fault', [6000, 300, 20000, 10 ** 6]) * MS})
        elif kind == 'kill':
            node = ch.pick('fault', order)
            ra = ch.pick('fault', [0, 200, 1500, 7000, None])
            out.append({'kind': 'kill', 'node': node, 'at_ns': at, 'plus_steps': plus,
                        'restart_after_ns': None if ra is None else ra * MS})
        elif kind == 'stall':
            node = ch.pick('fault', order)
            out.append({'kind': 'stall', 'node': node, 'at_ns': at, 'plus_steps': plus,
                        'dur_ns': ch.pick('fault', [300, 50, 1200, 6000, 20000]) * MS})
        elif kind == 'partition':
            pairs = [(nid, s['from']) for nid in order for s in sc['nodes'][nid].get('sources') or []]
            a, b = ch.pick('fault', pairs)
            out.append({'kind': 'partition', 'a': a, 'b': b, 'at_ns': at, 'plus_steps': plus,
                        'dur_ns': ch.pick('fault', [300, 50, 1500, 7000]) * MS})
        elif kind == 'delay_spike':
            pairs = [(nid, s['from']) for nid in order for s in sc['nodes'][nid].get('sources') or []]
            a, b = ch.pick('fault', pairs)
            typ = ch.pick('fault', [8, 2])   # PUSH pipe (requests, a->b) / SUB pipe (publishes, b->a)
            out.append({'kind': 'delay_spike', 'a': a, 'b': b, 'type': typ,
                        'a_to_b': typ == 8, 'at_ns': at, 'plus_steps': plus,
                        'dur_ns': ch.pick('fault', [200, 50, 1000]) * MS,
                        'extra_ns': ch.pick('fault', [150, 30, 600, 2500]) * MS})
        elif kind == 'stop':
            node = ch.pick('fault', order)
            out.append({'kind': 'stop', 'node': node, 'at_ns': at, 'plus_steps': plus})
        elif kind == 'restart_graceful':
            # clean shutdown (CLOSE / exit messages are sent) and a new incarnation on the same address
            node = ch.pick('fault', order)
            out.append({'kind': 'stop', 'node': node, 'at_ns': at, 'plus_steps': plus,
                        'restart_after_ns': ch.pick('fault', [0, 30, 300, 2000]) * MS})
            if ch.chance('fault', 2, 3):
                # a rolling restart of one filter of a pipeline that is meant to go on: nobody obeys its exit message
                for n2 in order:
                    sc['nodes'][n2]['obey_exit'] = 'none'
    return out


def gen_c04(ch, prof, stall_s=None):
    """A synchronized consumer stalls inside process() at a drawn frame; endless source."""
    sc = {'shape': 'stall', 'profile': prof.name, 'nodes': {}, 'order': [], 'knobs': gen_knobs(ch, prof)}
    nodes, order = sc['nodes'], sc['order']

    def add(nid, spec):
        nodes[nid] = spec
        order.append(nid)
        return spec

    src = add('s0', {'src': True, 'n_frames': 10 ** 9, 'period_ns': ch.pick('gen', [1, 0, 5, 30, 100]) * MS,
                     'out': [{'name': 'main'}], 'form': ch.pick('gen', ['dict', 'callable'])})
    prev = 's0'
    for i in range(ch.rng_int('gen', 0, 2)):
        r = add(f'r{i}', {'sources': [{'from': prev, 'sub': None}], 'out': [{'name': 'main'}],
                          'proc_ns': gen_proc_pattern(ch, prof), 'form': 'dict'})
        if _chance(ch, 1, 3):
            # a relay that is told to call process() with no frames when its sources are silent for a while; this says
            # nothing about its outputs, for which it still waits as long as it takes
            r['sources_timeout'] = ch.pick('gen', [100, 300, 50, 1000])
        prev = f'r{i}'
    dur = (stall_s if stall_s is not None else ch.pick('gen', [20, 30, 60])) * SEC
    ksrcs = [{'from': prev, 'sub': None}]
    if _chance(ch, 1, 3):
        # the stalling consumer also listens ephemerally to an auxiliary source, listed before or after the synchronized one
        add('x', {'src': True, 'n_frames': 10 ** 9, 'period_ns': ch.pick('gen', [50, 20, 200]) * MS,
                  'out': [{'name': 'aux'}], 'form': 'dict'})
        e = {'from': 'x', 'sub': [['aux', 'aux']], 'eph': ch.rng_int('gen', 1, 2)}
        if _chance(ch, 1, 2):
            ksrcs.insert(0, e)
        else:
            ksrcs.append(e)
    elif _chance(ch, 1, 4):
        # attached to its publisher twice: synchronized and, for a second name of the same topic, ephemerally
        e = {'from': prev, 'sub': [['main', 'again']], 'eph': 1}
        ksrcs = [{'from': prev, 'sub': [['main', 'main']]}]
        if _chance(ch, 1, 2):
            ksrcs.insert(0, e)
        else:
            ksrcs.append(e)
    add('k', {'sources': ksrcs, 'has_output': False, 'proc_ns': gen_proc_pattern(ch, prof),
              'stall_at': [ch.rng_int('gen', 1, 12), dur]})
    if _chance(ch, 1, 2):
        k2 = add('k2', {'sources': [{'from': prev, 'sub': None}], 'has_output': False,
                        'proc_ns': gen_proc_pattern(ch, prof)})
        if _chance(ch, 1, 3):
            # the publisher is bound on two addresses (not balancing: every frame goes out on both) and its two
            # synchronized consumers sit on different ones
            nodes[prev]['n_out'] = 2
            nodes[prev]['outputs_as_list'] = _chance(ch, 1, 2)
            which = ch.rng_int('gen', 0, 1)
            k2['sources'][0]['out_idx'] = which
            for s in nodes['k']['sources']:
                if s['from'] == prev:
                    s['out_idx'] = 1 - which
    if _chance(ch, 1, 3) and prev != 's0':
        add('k3', {'sources': [{'from': 's0', 'sub': None}], 'has_output': False, 'proc_ns': gen_proc_pattern(ch, prof)})
    for nid in order:
        if _chance(ch, 1, 5):
            nodes[nid]['sources_low_latency'] = True
    consumers = {}
    for nid in order:
        for s in nodes[nid].get('sources') or []:
            consumers.setdefault(s['from'], []).append(nid)
    for up, cons in consumers.items():
        if _chance(ch, 1, 2):
            nodes[up]['outputs_required'] = list(cons)
    sc['n_frames'] = 10 ** 9
    sc['faults'] = []
    sc['settle_ns'] = 10 ** 18
    sc['t_end_ns'] = 400 * SEC
    sc['max_steps'] = 150_000
    return sc


def gen_c06(ch, prof):
    """Synchronized pipeline, endless source, exactly one fault class (or none)."""
    sc = gen_scenario(ch, prof)
    nodes, order = sc['nodes'], sc['order']
    knobs = sc['knobs']
    for nid in order:
        if nodes[nid].get('src'):
            nodes[nid]['n_frames'] = 10 ** 9
            nodes[nid]['period_ns'] = ch.pick('gen', [50, 20, 100]) * MS
            nodes[nid].pop('skip', None)
    for nid in order:
        if isinstance(nodes[nid].get('defer_none'), dict):
            # a run of deferred-None results that lasts to the end of the stream means "nothing flows any more" by design:
            # not a liveness scenario (periodic decimation stays)
            del nodes[nid]['defer_none']
    knobs['ZMQ_CONN_TIMEOUT'] = ct = ch.pick('gen', [2000, 1000, 5000])
    consumers = {}      # publisher -> its SYNCHRONIZED consumers ('??' listeners never register, a stalled '?' one times out)
    for nid in order:
        for s in nodes[nid].get('sources') or []:
            if not s.get('eph'):
                consumers.setdefault(s['from'], []).append(nid)

    def required_by(nid):
        out = []
        for s in nodes[nid].get('sources') or []:
            req = nodes[s['from']].get('outputs_required') or []
            if isinstance(req, str):
                req = [x.strip() for x in req.split(',')]
            if nid in req:
                out.append(s['from'])
        return out

    sinks = [n for n in order if not nodes[n].get('has_output', True)]
    nonreq_sinks = [n for n in sinks if not required_by(n)]
    req_nodes = [n for n in order if required_by(n)]
    at = ch.rng_int('fault', 300, 3000) * MS
    if ch.chance('fault', 1, 6):
        # a pipeline that has been running for a while: ids are far from their initial values, so that a restarted
        # filter which creeps up to its neighbours' ids one by one (instead of adopting them) stays silent for longer
        # than the healing bound
        at = ch.rng_int('fault', 9000, 16000) * MS
    plus = ch.rng_int('fault', 0, 60)
    classes = ['none', 'restart', 'graceful_restart']
    # a publisher with no connected output at all waits for one (start-up behaviour), so the silent death of the *sole*
    # consumer of a publisher is not something frames can "flow again" after: only victims with a sibling consumer
    die_candidates = [n for n in nonreq_sinks
                      if all(len(consumers.get(s['from'], [])) > 1 for s in nodes[n].get('sources') or [])]
    if nonreq_sinks:
        classes += ['stall_nonreq']
    if die_candidates:
        classes += ['die_nonreq']
    if req_nodes:
        classes += ['req_returns']
    cls = classes[ch.weighted('fault', [1, 6, 2] + [2] * (len(classes) - 3))]
    sc['fault_class'] = cls
    faults = []
    if cls == 'restart':
        victim = ch.pick('fault', order)
        delay = ch.pick('fault', [0, 200, int(ct * 1.4)]) * MS
        faults.append({'kind': 'kill', 'node': victim, 'at_ns': at, 'plus_steps': plus, 'restart_after_ns': delay})
    elif cls == 'graceful_restart':
        # clean shutdown (stop event: CLOSE / exit messages are sent) and a new incarnation; nobody obeys the exit message
        victim = ch.pick('fault', order)
        for n in order:
            nodes[n]['obey_exit'] = 'none'
        faults.append({'kind': 'stop', 'node': victim, 'at_ns': at, 'plus_steps': plus,
                       'restart_after_ns': ch.pick('fault', [0, 200, int(ct * 1.4)]) * MS})
    elif cls == 'stall_nonreq':
        victim = ch.pick('fault', nonreq_sinks)
        faults.append({'kind': 'stall', 'node': victim, 'at_ns': at, 'plus_steps': plus,
                       'dur_ns': int(ct * ch.pick('fault', [13, 20, 30]) / 10) * MS})
    elif cls == 'die_nonreq':
        victim = ch.pick('fault', die_candidates)
        faults.append({'kind': 'kill', 'node': victim, 'at_ns': at, 'plus_steps': plus, 'restart_after_ns': None})
    elif cls == 'req_returns':
        victim = ch.pick('fault', req_nodes)
        faults.append({'kind': 'kill', 'node': victim, 'at_ns': at, 'plus_steps': plus,
                       'restart_after_ns': ch.pick('fault', [int(ct * 1.4), 200, int(ct * 2.2)]) * MS})
    sc['faults'] = faults
    sc['n_frames'] = 10 ** 9
    sc['settle_ns'] = 10 ** 18
    sc['t_end_ns'] = 120 * SEC
    sc['max_steps'] = 400_000
    return sc


POLICIES = ('all', 'clean', 'error', 'none')
FLAGS = {'all': 3, 'clean': 1, 'error': 2, 'none': 0}

C08_CAUSES = ('exit_process', 'raise_process', 'stop', 'exit_setup', 'raise_setup', 'raise_init', 'exit_shutdown',
              'raise_shutdown', 'raise_send', 'raise_recv', 'exit_after_secs', 'exit_after_str', 'exit_after_at')


def gen_c08(ch, prof):
    """One filter ends for one cause; every filter has its own propagate / obey policy."""
    topo = ch.pick('gen', ['chain', 'tee', 'rejoin'])
    sc = {'shape': 'life-' + topo, 'profile': 'c08', 'nodes': {}, 'order': [],
          'knobs': {'net': {'lat_min_ns': 50_000, 'lat_max_ns': ch.pick('gen', [2, 1, 10, 30]) * MS,
                            'conn_max_ns': ch.pick('gen', [5, 1, 50]) * MS},
                    'idle_cost_ns': 20_000}}
    nodes, order = sc['nodes'], sc['order']

    def add(nid, spec):
        spec['prop_exit'] = POLICIES[ch.weighted('gen', [3, 3, 2, 2])]
        spec['obey_exit'] = POLICIES[ch.weighted('gen', [4, 2, 2, 2])]
        nodes[nid] = spec
        order.append(nid)
        return spec

    add('a', {'src': True, 'n_frames': 10 ** 9, 'period_ns': ch.pick('gen', [50, 20, 100]) * MS,
              'out': [{'name': 'main'}], 'form': ch.pick('gen', ['dict', 'callable'])})
    proc = lambda: [ch.pick('gen', [0, 5, 40]) * MS]
    if topo == 'chain':
        add('b', {'sources': [{'from': 'a', 'sub': None}], 'out': [{'name': 'main'}], 'proc_ns': proc()})
        add('c', {'sources': [{'from': 'b', 'sub': None}], 'has_output': False, 'proc_ns': proc()})
    elif topo == 'tee':
        add('b', {'sources': [{'from': 'a', 'sub': None}], 'has_output': False, 'proc_ns': proc()})
        add('c', {'sources': [{'from': 'a', 'sub': None}], 'has_output': False, 'proc_ns': proc()})
    else:
        add('b', {'sources': [{'from': 'a', 'sub': None}], 'out': [{'name': 'b'}], 'proc_ns': proc()})
        add('c', {'sources': [{'from': 'a', 'sub': None}], 'out': [{'name': 'c'}], 'proc_ns': proc()})
        add('j', {'sources': [{'from': 'b', 'sub': None}, {'from': 'c', 'sub': None}], 'has_output': False,
                  'proc_ns': proc()})
    x = ch.pick('gen', order)
    for n in order:
        # LOOP_EXC=false ("ignore exceptions in the main loop and keep going") on some of the OTHER filters
        if n != x and ch.chance('gen', 1, 5):
            nodes[n]['loop_exc'] = False
    cause = ch.pick('gen', list(C08_CAUSES))
    if cause == 'raise_recv' and nodes[x].get('src'):
        cause = 'raise_send'
    t_ms = ch.rng_int('gen', 1500, 3000)
    early = ch.chance('gen', 1, 4)
    k = ch.rng_int('gen', 0, 1) if early else ch.rng_int('gen', 8, 20)
    spec = nodes[x]
    faults = []
    sc['x'] = x
    sc['cause'] = cause
    sc['t_cause_ms'] = t_ms
    if cause in ('exit_process', 'raise_process'):
        spec['inject'] = [{'stage': 'process', 'k': k, 'what': cause.split('_')[0]}]
        sc['early'] = early
    elif cause in ('exit_setup', 'raise_setup'):
        spec['inject'] = [{'stage': 'setup', 'what': cause.split('_')[0]}]
        sc['early'] = True
    elif cause == 'raise_init':
        spec['inject'] = [{'stage': 'init', 'what': 'raise'}]
        sc['early'] = True
    elif cause in ('exit_shutdown', 'raise_shutdown'):
        spec['inject'] = [{'stage': 'shutdown', 'what': cause.split('_')[0]}]
        faults.append({'kind': 'stop', 'node': x, 'at_ns': t_ms * MS, 'plus_steps': ch.rng_int('fault', 0, 30)})
    elif cause == 'stop':
        faults.append({'kind': 'stop', 'node': x, 'at_ns': t_ms * MS, 'plus_steps': ch.rng_int('fault', 0, 30)})
    elif cause in ('raise_send', 'raise_recv'):
        faults.append({'kind': 'sock_error', 'node': x, 'op': cause.split('_')[1], 'at_ns': t_ms * MS,
                       'plus_steps': ch.rng_int('fault', 0, 30)})
    elif cause == 'exit_after_secs':
        spec['exit_after'] = ch.pick('gen', [t_ms / 1000, t_ms // 1000])
    elif cause == 'exit_after_str':
        spec['exit_after'] = ch.pick('gen', [f'0:{t_ms / 1000:.3f}', f'0:0:{t_ms // 1000}', f'{t_ms / 1000:.1f}'])
    elif cause == 'exit_after_at':
        spec['exit_after'] = '@+' + str(t_ms)      # resolved to an absolute wall-clock text by the world at start
    if cause.startswith('exit_after') and spec.get('has_output', True) and ch.chance('gen', 1, 3):
        # the filter gives up sending after outputs_timeout and its consumers have stopped asking (stuck in process(),
        # deaf to everything): every send times out, exit_after must end the filter all the same
        spec['outputs_timeout'] = ch.pick('gen', [100, 300, 50])
        for n in order:
            if any(s2['from'] == x for s2 in nodes[n].get('sources') or []):
                nodes[n]['proc_ns'] = [10 ** 6 * MS]
                nodes[n]['obey_exit'] = 'none'
        sc['send_timeouts'] = True
    sc['faults'] = faults
    sc['n_frames'] = 10 ** 9
    sc['settle_ns'] = 10 ** 18
    sc['t_end_ns'] = 30 * SEC
    sc['max_steps'] = 200_000
    return sc
