"""Lineage world (C18, and the lineage sink of C15): MQ world whose filters carry the real OpenFilterLineage with a
capturing in-memory client; the heartbeat thread is a scheduler task of the same simulated process."""

import uuid as _uuid

from sim import patch as P
from sim.clock import SimTimeModule, make_datetime_class
from sim.core import EPOCH_NS
from sim.threads import SimThreading
from .mq import MQWorld, MS, SEC
from .oracles import V, C08_KIND, c08_expected


class CapturingClient:
    """Stands in for openlineage's client: every emit is a yield point and is recorded."""

    def __init__(self, world, proc):
        self.world = world
        self.proc = proc
        self.events = []     # (step, now, eventType name, run id, task name)

    def emit(self, event):
        w = self.world
        s = w.sched
        cur = s.current
        if cur is not None and not cur.is_main:
            lat = (w.sc.get('lineage') or {}).get('emit_latency_ms', 0)
            if lat:
                s.sleep_ns(lat * 1_000_000, 'lineage.emit')      # the backend (HTTP transport) is not instantaneous
            else:
                s.block(label='lineage.emit')
            if not self.proc.alive or s.aborting:
                return
        et = getattr(event.eventType, 'name', None) or str(event.eventType)
        rid = getattr(event.run, 'runId', None)
        tname = cur.name if cur is not None and not cur.is_main else 'controller'
        self.events.append((s.step, s.now, et, rid, tname))
        w.ev('lineage', self.proc.name, self.proc.inc, et, tname.split(':')[-1])
        if w.keep_lineage_events:
            w.lineage_raw.append((self.proc.key, et, event))
        den = (w.sc.get('lineage') or {}).get('emit_faults')
        if den and cur is not None and not cur.is_main and w.choice.chance('lfault', 1, den):
            # the backend has the event but its answer is lost (read timeout of the HTTP transport): emit() raises
            w.ostats['c18_emit_response_lost'] += 1
            w.faults_fired['lineage_emit_response_lost'] = w.faults_fired.get('lineage_emit_response_lost', 0) + 1
            w.ostats['c18_emit_response_lost_' + et] += 1
            w.ev('lineage_fault', self.proc.name, self.proc.inc, et, 'response_lost')
            raise TimeoutError('read timed out (simulated: response of the lineage backend lost)')


class _SimUuid:
    def __init__(self, world):
        self.w = world
        self.n = 0
        self.UUID = _uuid.UUID

    def uuid4(self):
        self.n += 1
        return _uuid.UUID(int=(0x5EED << 64) + self.n)


class LineageWorld(MQWorld):
    keep_lineage_events = False

    def __init__(self, scenario, choice, **kw):
        super().__init__(scenario, choice, **kw)
        self.lineage_raw = []

    def _install_seams(self):
        MQWorld.install(self)
        lin = P.mod('openfilter.observability.lineage')
        b = self.patcher.bind
        b(lin, 'threading', SimThreading(self.sched, inline_threads=False))
        b(lin, 'time', SimTimeModule(self.clock))
        b(lin, 'datetime', make_datetime_class(self.clock))
        b(lin, 'uuid', _SimUuid(self))
        self._lin = lin

    def install_line_preemption(self):
        """Thorough tier: every source line of observability/lineage.py (and of Filter.exit) becomes a pre-emption point,
        so that the run thread and the heartbeat thread interleave at line granularity, not only at Event/Lock/emit."""
        import sys
        sched = self.sched
        lin_file = self._lin.__file__
        stats = self.ostats

        def local(frame, event, arg):
            if event == 'line':
                cur = sched.current
                if cur is not None and not cur.is_main and cur.proc.alive and not sched.aborting:
                    stats['c18_line_preemption_points'] += 1
                    sched.block(label='ln')
            return local

        def tracer(frame, event, arg):
            if event == 'call' and frame.f_code.co_filename == lin_file:
                return local
            return None

        sched.on_task_start = lambda t: sys.settrace(tracer)

    def install(self):
        self._install_seams()
        if (self.sc.get('lineage') or {}).get('line_preempt'):
            self.install_line_preemption()

    def prepare_proc(self, proc, spec):
        lcfg = self.sc.get('lineage') or {}
        if spec.get('lineage', True) is False:
            return
        client = CapturingClient(self, proc)
        em = self._lin.OpenFilterLineage(client=client, interval=lcfg.get('interval_s', 10))
        for i, (obj, attr, factory) in enumerate(self.sched.proc_locals):
            if attr == 'emitter':
                proc.locals[i] = em
        self.lineage[proc] = client


def check_c18(world):
    """START . RUNNING* . exactly one terminal, nothing after, one run id, COMPLETE iff clean / ABORT iff error."""
    sc = world.sc
    out = []
    stats = world.ostats
    x = sc['x']
    cause = sc['cause']
    exp = c08_expected(sc)
    ended = {}
    for e in world.events:
        if e[0] == 'life' and e[5] in ('run_return', 'run_raise'):
            ended[(e[3], e[4])] = (e[5], e[2])
    for proc, client in world.lineage.items():
        nid, inc = proc.name, proc.inc
        evs = client.events
        names = [e[2] for e in evs]
        fin = ended.get((nid, inc))
        stats['c18_histories'] += 1
        sig = dict(cause=cause if nid == x else 'propagated')
        ctx = f'{nid} (run ended: {fin[0] if fin else "still running"}; cause {cause} at {x}); history {names}'
        if not names:
            if fin is not None and fin[0] == 'run_return' and 'init_exit' in [l[5] for l in world.events if l[0] == 'life' and l[3] == nid]:
                out.append(V('C18', 'no_events', f'{ctx}: nothing emitted', None, fin[1], **sig))
            continue
        if len({e[3] for e in evs}) > 1:
            out.append(V('C18', 'run_id_changed', f'{ctx}: several run ids', None, evs[0][1], **sig))
        if names[0] != 'START':
            out.append(V('C18', 'not_started', f'{ctx}: first event is {names[0]}', evs[0][0], evs[0][1], **sig))
        if names.count('START') > 1:
            out.append(V('C18', 'start_twice', f'{ctx}', None, evs[0][1], **sig))
        terms = [i for i, n in enumerate(names) if n in ('COMPLETE', 'ABORT', 'FAIL')]
        if fin is None:
            if terms and proc.alive and not proc.exited:
                # a terminal event while the filter is still inside run() is only wrong if the run then goes on
                pass
            continue
        stats['c18_ended_histories'] += 1
        if not terms:
            out.append(V('C18', 'no_terminal', f'{ctx}: no terminal event', None, fin[1], **sig))
            continue
        if len(terms) > 1:
            out.append(V('C18', 'terminal_twice', f'{ctx}: {len(terms)} terminal events', evs[terms[1]][0],
                         evs[terms[1]][1], **sig))
        if terms[0] != len(names) - 1 and any(n not in ('COMPLETE', 'ABORT', 'FAIL') for n in names[terms[0] + 1:]):
            out.append(V('C18', 'event_after_terminal', f'{ctx}: events after the terminal one', None, fin[1], **sig))
        # which terminal: COMPLETE iff the filter ended cleanly (exit() / exit_after / obeyed clean exit); ABORT if it
        # ended by an error (its own or an obeyed one) or was interrupted (stop event)
        if nid == x:
            kind = 'clean' if C08_KIND[cause] == 'clean' and cause not in ('stop', 'exit_shutdown') else 'error'
        else:
            kind = exp[nid][0] if nid in exp else None
        strict = True
        last = names[terms[-1]]
        first = names[terms[0]]
        if kind is not None and strict:
            want = 'COMPLETE' if kind == 'clean' else 'ABORT'
            if first != want or last != want:
                out.append(V('C18', 'wrong_terminal', f'{ctx}: ended by a {kind} ending, terminal must be {want}',
                             None, fin[1], kind=kind, **sig))
    return out
