"""C13 / C14 world: the real `RollLog` (openfilter/filter_runtime/rolllog.py, unmodified) over the simulated file
system and a controllable wall clock.

Actors     one writer (RollLog, not rdonly; it is also a reader of its own log: name 'w'), one or two readers
           (RollLog rdonly, autorefresh on / off: 'r0', 'r1'), an external deleter, a clock actor.
History    an explicit JSON-able list of operations (see `gen_history_c13` / `gen_history_c14`); every RollLog API
           call is atomic in the quick tier (what the statements quantify over). The thorough tier of C13 additionally
           interleaves the writer and one reader at file-system-call granularity (`run_fsgran`).
Model      a list of files in creation order, each the concatenation of the records written to it (offset, raw bytes,
           API-level value). What a reader call returned is attributed to a byte range of one model file through the
           file system's read log (which inode, which offset, how many bytes), so attribution never depends on payloads
           being distinguishable; payloads are unique anyway and are compared with the model's value.
Oracles    see `RollWorld.judge_read`, `after_write`, `on_event`, `restart_reader`.

Position of a reader in the model: (file index, byte offset) or None ("floating": the code has not defined it in a
way the statement pins down - a reader constructed on a non-empty log without `head`, or after seek('end')). A
floating reader is only checked for torn records; its position becomes defined by the first record it returns.
"""

import json
import re

from sim import patch as P
from sim.choice import ChoiceSource, Digest
from sim.clock import make_datetime_class
from sim.fs import SimFS, SimOS, SimCrash

LOGROOT = '/logs'
LOGDIR = '/logs/app'
HEAD = '/logs/head.json'
EPOCH_US = 1_780_000_000_000_000
RE_LOG = re.compile(r'^(\d{16})_\d{4}-\d{2}-\d{2}_\d{2}-\d{2}-\d{2}[-+]\d{4}\.(?:bin|binl|txt|jsonl)$')
MODES = ('txt', 'bin', 'binl', 'json')
FILL = 'abcdefghijklmnopqrstuvwxyzABCDEFGHIJKLMNOPQRSTUVWXYZ0123456789'


class VClock:
    """The wall clock every simulated process sees; the clock actor sets it directly (advance, stand still, step back)."""

    def __init__(self, us=EPOCH_US):
        self.us = us

    def now_ns(self):
        return self.us * 1000

    def time(self):
        return self.us / 1e6


# characters that are ordinary content of a text record (only '\n' delimits) but that some "line" helpers treat as
# boundaries or that take more than one byte
ODD = ('\r', '\x0b', '\x0c', '\x1c', '\x1e', '\x85', '\u2028', '\u00e9', '\t', ' ')


def make_record(mode, rid, size, odd=0):
    """(value handed to write(), raw bytes expected on disk, value expected back from read())."""
    tag = f'<{rid}>'
    if odd and mode in ('txt', 'binl'):
        c = ODD[(odd - 1) % len(ODD)]
        s = (tag + FILL * (size // len(FILL) + 1))[:max(size, len(tag) + 2)]
        k = len(s) - 1 if rid % 2 else len(tag) + (len(s) - len(tag)) // 2      # last character, or in the middle
        s = s[:k] + c + s[k + 1:]
        b = s.encode()
        return (s, b + b'\n', s) if mode == 'txt' else (b, b + b'\n', b)
    if mode == 'json':
        if size < 12 + len(str(rid)):
            val = rid
        else:
            pad = size - (11 + len(str(rid)))
            val = {'i': rid, 'p': (FILL * (pad // len(FILL) + 1))[:pad]}
        raw = json.dumps(val, allow_nan=False, separators=(',', ':')).encode() + b'\n'
        return val, raw, val
    s = (tag + FILL * (size // len(FILL) + 1))[:size]
    if mode == 'txt':
        return s, s.encode() + b'\n', s
    b = s.encode()
    if mode == 'binl':
        return b, b + b'\n', b
    return b, b, b      # bin: no delimiter


# what a 'bin' write may be handed instead of bytes: (name, item size)
CARRIERS = (('bytearray', 1), ('memoryview', 1), ('array_H', 2), ('array_I', 4), ('array_d', 8), ('numpy_u2', 2),
            ('numpy_2d', 4))


def wrap_carrier(b, c):
    name, item = CARRIERS[(c - 1) % len(CARRIERS)]
    if len(b) % item:
        name = 'memoryview'
    if name == 'bytearray':
        return bytearray(b)
    if name == 'memoryview':
        return memoryview(b)
    if name.startswith('array_'):
        import array
        a = array.array(name[-1])
        if a.itemsize != item:          # platform with another C type size: fall back to the byte view
            return memoryview(b)
        a.frombytes(b)
        return a
    import numpy as np
    if name == 'numpy_u2':
        return np.frombuffer(b, dtype=np.uint16)
    return np.frombuffer(b, dtype=np.uint8).reshape(-1, 4)


class MFile:
    __slots__ = ('idx', 'name', 'path', 'ino', 'us', 'recs', 'offs', 'ends', 'size', 'logical', 'deleted_step',
                 'deleted_by', 'subus', 'created_step', 'closed')

    def __init__(self, idx, name, path, ino, us, step):
        self.idx = idx
        self.name = name
        self.path = path
        self.ino = ino
        self.us = us
        self.recs = []          # (offset, end, value, rid)
        self.offs = {}          # start offset -> record index
        self.ends = set()
        self.size = 0
        self.logical = bytearray()
        self.deleted_step = None
        self.deleted_by = None
        self.subus = False
        self.created_step = step
        self.closed = False

    def add(self, raw, value, rid):
        off = self.size
        end = off + len(raw)
        self.offs.setdefault(off, len(self.recs))
        self.recs.append((off, end, value, rid))
        self.ends.add(end)
        self.logical += raw
        self.size = end


class RState:
    """Harness-side state of one reading party."""

    def __init__(self, name, kind, proc):
        self.name = name
        self.kind = kind            # 'writer' | 'rdonly-auto' | 'rdonly-manual'
        self.proc = proc
        self.inc = 0
        self.obj = None
        self.pos = None             # (file idx, offset) | None = floating
        self.delivered = []         # (file idx, a, b) since the position was last defined
        self.tells = []             # (literal returned by tell(), model position then)
        self.last_file = None
        self.positioned_by = 'open'
        self.n_delivered = 0
        # C14
        self.saved = None           # model position of the last completed save
        self.saving = None          # model position being saved while a save is in progress
        self.floor = None           # redelivery floor: last completed save at the time of the latest crash
        self.ever = []              # (file idx, a, b, incarnation) delivered by any incarnation
        self.cands = []             # positions a restart may legally resume from
        self.down = False


class RollWorld:
    def __init__(self, prop, knobs, history, plan=None):
        self.prop = prop
        self.k = knobs
        self.history = history
        self.mode = knobs.get('mode', 'txt')
        self.file_size = knobs.get('file_size', 100)
        self.total_size = knobs.get('total_size', 10 ** 9)
        self.flush = knobs.get('flush', True)
        self.tick_us = knobs.get('tick_us', 1000)
        self.fs = SimFS()
        self.clock = VClock()
        self.digest = Digest()
        self.violations = []
        self._vkeys = set()
        self.probes = {}
        self.harness_errors = []
        self.trace = []
        self.files = []             # MFile in creation order
        self.by_ino = {}
        self.by_name = {}
        self.cur = None             # model file the writer has open (or had, until the next create)
        self.max_us = None
        self.w_known_us = None      # latest file timestamp the current writer incarnation can know about
        self.nonmono = False        # some file was created with a name timestamp <= an earlier file's
        self.broken = False         # a log file was overwritten: the list model is undefined from here on
        self.unknowable = False     # see on_event('create'): order / completeness are no longer judged (doubtful case)
        self.step = -1
        self.skip_tick = False
        self.created_in_op = None
        self.ext_deleted = False
        w = RState('w', 'writer', 'w')
        self.readers = {'w': w}
        for i, auto in enumerate(knobs.get('readers', [True])):
            self.readers[f'r{i}'] = RState(f'r{i}', 'rdonly-auto' if auto else 'rdonly-manual', f'r{i}')
        # C14 crash machinery
        self.plan = list(plan or [])
        self.crash_at = None        # ('fsop', n) | ('step', i)
        self.r_ops = 0              # FS calls made by the head reader, all incarnations
        self.r_oplog = []           # (n, kind, step, in_save)
        self.restart_at = None
        self.cur_down = 0
        self.n_crashes = 0
        self.n_restarts = 0
        self.head_proc = None
        self.sched = None           # set by run_fsgran
        self.fsgran = bool(knobs.get('fsgran'))
        self.pending = None         # fsgran: record handed to write() whose bytes have not reached the file yet
        self.pat = None
        self.rl = None

    # -- set-up / tear-down ---------------------------------------------------------------------------------------------

    def bind(self):
        self.rl = rl = P.mod('openfilter.filter_runtime.rolllog')
        self.pat = pat = P.Patcher()
        clock = self.clock
        pat.bind(rl, 'os', SimOS(self.fs))
        pat.bind(rl, 'open', self.fs.open, must_exist=False)
        pat.bind(rl, 'time', clock.time)
        pat.bind(rl, 'datetime', make_datetime_class(clock))
        self.fs.on_op = self.on_op
        self.fs.on_event = self.on_event
        self.fs.proc = 'main'
        self.fs.makedirs(LOGDIR, exist_ok=True)

    def unbind(self):
        if self.pat is not None:
            self.pat.restore()
            self.pat = None

    # -- small helpers ----------------------------------------------------------------------------------------------------

    def probe(self, name, n=1):
        self.probes[name] = self.probes.get(name, 0) + n

    def cause(self):
        return 'timestamp_not_increasing' if self.nonmono else 'none'

    def violation(self, oracle, signature, message):
        if self.unknowable and oracle in ('lost_record', 'skipped_record', 'order', 'duplicate', 'torn'):
            self.probe(f'doubtful_after_unknowable_backstep:{oracle}')
            return
        key = (oracle, json.dumps(signature, sort_keys=True))
        if key in self._vkeys:
            return
        self._vkeys.add(key)
        self.violations.append({'property': self.prop, 'oracle': oracle, 'signature': signature,
                                'message': message, 'step': self.step, 'vtime': None})

    def log(self, *items):
        self.digest.add(self.step, *items)
        self.trace.append((self.step,) + items)

    def disk_logs(self):
        """[(name, size)] of log files on disk, sorted by name."""
        fs = self.fs
        out = []
        for nm in fs.names_in(LOGDIR):
            if RE_LOG.match(nm):
                out.append((nm, fs.size_of(LOGDIR + '/' + nm)))
        out.sort()
        return out

    def observe_exc(self, where, exc):
        self.probe(f'exc:{where}:{type(exc).__name__}')
        self.log('exc', where, type(exc).__name__, str(exc)[:120])

    # -- file-system hooks --------------------------------------------------------------------------------------------------

    def on_op(self, kind, path, proc, n):
        if proc == self.head_proc:
            self.r_ops += 1
            rd = self.readers['r0']
            self.r_oplog.append((self.r_ops, kind, self.step, rd.saving is not None))
            ca = self.crash_at
            if ca is not None and ca[0] == 'fsop' and self.r_ops >= ca[1]:
                self.crash_at = None
                self.fs.crash(proc)
                raise SimCrash
        sched = self.sched
        if sched is not None and sched.current is not None and not sched.current.is_main:
            sched.block(label=f'fs:{kind}')
            self.fs.proc = proc      # another task ran in between

    def on_event(self, kind, path, info):
        if not path.startswith(LOGDIR + '/'):
            return
        name = path[len(LOGDIR) + 1:]
        m = RE_LOG.match(name)
        if not m:
            return
        if kind == 'create':
            us = int(m.group(1))
            mf = MFile(len(self.files), name, path, info['ino'], us, self.step)
            if self.max_us is not None and us <= self.max_us:
                self.probe('equal_timestamps' if us == self.max_us else 'earlier_timestamps')
                if self.w_known_us is not None and us <= self.w_known_us:
                    self.nonmono = True      # the writer knew a file with a timestamp at least as late
                else:
                    # every file with a timestamp >= this one had vanished before the writer started: no trace of it
                    # is left to the writer, so parties positioned by the vanished files have no expectation (doubtful
                    # case, see assumptions) until they are positioned again
                    self.probe('unknowable_backstep')
                    self.unknowable = True
            if info['proc'] == 'w':
                self.w_known_us = us if self.w_known_us is None else max(self.w_known_us, us)
            self.max_us = us if self.max_us is None else max(self.max_us, us)
            self.files.append(mf)
            self.by_ino[info['ino']] = mf
            self.by_name[name] = mf
            if info['proc'] == 'w':
                self.cur = mf
                self.created_in_op = mf
            self.probe('files_created')
            if len(self.files) > 1:
                self.probe('rollovers')
        elif kind == 'overwrite':
            old = self.by_ino.get(info['ino'])
            us = int(m.group(1))
            self.nonmono = True
            self.probe('overwrites')
            lost = len(old.recs) if old is not None else '?'
            self.violation('overwrite_existing_file', {'cause': 'timestamp_not_increasing'},
                           f'step {self.step}: roll-over re-opened the existing log file {name} with {info["mode"]!r} '
                           f'({info["size"]} bytes, {lost} records destroyed); its timestamp {us} is not later than '
                           f'the newest existing file ({self.max_us})')
            self.broken = True
        elif kind == 'content_changed':
            if not self.broken:
                self.violation('content_changed', {'cause': self.cause()},
                               f'step {self.step}: earlier content of log file {name} changed (write at offset '
                               f'{info["offset"]} below size {info["size"]})')
                self.broken = True
        elif kind == 'unlink':
            mf = self.by_ino.get(info['ino'])
            if mf is None:
                return
            mf.deleted_step = self.step
            if info['proc'] == 'ext':
                mf.deleted_by = 'ext'
                self.ext_deleted = True
                if mf.size:
                    self.probe('ext_deletes_effective')
            else:
                mf.deleted_by = 'prune'
                self.probe('prunes')
                if mf is self.files[-1] and not self.broken and self.prop == 'C13':
                    self.violation('newest_pruned', {'cause': self.cause()},
                                   f'step {self.step}: the retention policy deleted the newest log file {name}')

    # -- constructing the real objects ------------------------------------------------------------------------------------------

    def construct(self, rd, head=None):
        rl = self.rl
        self.fs.proc = rd.proc
        kw = {}
        if rd.kind == 'writer':
            kw = dict(file_size=self.file_size, total_size=self.total_size, flush=self.flush, utc=True)
        else:
            kw = dict(rdonly=True, autorefresh=rd.kind == 'rdonly-auto', utc=True)
            if head is not None:
                kw['head'] = head
        try:
            rd.obj = rl.RollLog(LOGDIR, self.mode, **kw)
        except SimCrash:
            raise
        except Exception as exc:
            rd.obj = None
            if isinstance(exc, ValueError) and 'newer log file' in str(exc):
                self.probe('constructor_refusals')
                self.log('ctor', rd.name, 'refused')
            else:
                self.observe_exc(f'ctor_{rd.name}', exc)
            return exc
        if rd.kind == 'writer':
            uss = [int(nm[:16]) for nm, _ in self.disk_logs()]
            self.w_known_us = max(uss) if uss else None
        self.log('ctor', rd.name, 'ok', len(rd.obj.logfiles))
        return None

    def pos_after_open(self):
        """Model position of a party constructed now without `head`: defined only if no log file exists."""
        return (len(self.files), 0) if not self.disk_logs() else None

    def setup_parties(self):
        for rd in self.readers.values():
            if self.prop == 'C14' and rd.name == 'r0':
                continue
            self.construct(rd)
            rd.pos = self.pos_after_open()
            rd.positioned_by = 'open'

    # -- model arithmetic ---------------------------------------------------------------------------------------------------------

    def gap(self, a, b):
        """Portions [(file idx, lo, hi)] of files that still exist and hold written bytes in the position range [a, b)."""
        fa, oa = a
        fb, ob = b
        out = []
        files = self.files
        for k in range(fa, min(fb, len(files) - 1) + 1):
            mf = files[k]
            lo = oa if k == fa else 0
            hi = min(ob, mf.size) if k == fb else mf.size
            if hi > lo and mf.deleted_step is None:
                out.append((k, lo, hi))
        return out

    def equivalent(self, a, b):
        if a == b:
            return True
        lo, hi = (a, b) if a <= b else (b, a)
        return not self.gap(lo, hi)

    def lit_to_model(self, lit):
        try:
            fnm, off = lit
        except Exception:
            return None
        if fnm == 'start':
            return (0, 0)
        mf = self.by_name.get(fnm)
        if mf is None or not isinstance(off, int):
            return None
        if self.mode != 'bin':
            # a position strictly inside a record (tell() at the end of the log while that record was only partially on
            # disk) stands for the start of that record: delivering it whole is the only answer that neither tears nor
            # loses it
            for (o, e, _, _) in mf.recs:
                if o < off < e:
                    self.probe('position_inside_record')
                    if off - o > 4096:
                        self.probe('position_far_inside_record')
                    return (mf.idx, o)
        return (mf.idx, off)

    def describe_gap(self, gap):
        parts = []
        for k, lo, hi in gap[:4]:
            mf = self.files[k]
            n = sum(1 for (o, e, _, _) in mf.recs if o >= lo and e <= hi and e > o)
            parts.append(f'{mf.name}[{lo}:{hi}] ({n} records, file still on disk)')
        return ', '.join(parts)

    def sig_reader(self, rd, mf=None):
        pf = self.files[rd.pos[0]] if rd.pos is not None and rd.pos[0] < len(self.files) else None
        sig = {'cause': self.cause(), 'reader': rd.kind,
               'pos_file_deleted': bool(pf is not None and pf.deleted_step is not None),
               'subus_ts': bool((mf is not None and mf.subus) or (pf is not None and pf.subus))}
        if self.prop == 'C14':
            sig = {'reader': rd.kind, 'pos_file_deleted': sig['pos_file_deleted'], 'across_restart': False}
        if self.fsgran:
            sig['gran'] = 'fs'
            if self.k.get('short_write'):
                sig['short_write'] = True
        return sig

    # -- the reader oracle ---------------------------------------------------------------------------------------------------------

    def judge_read(self, rd, opname, res, reads):
        """Compare what a read()/read_block() returned with the list model."""
        block = opname == 'read_block' or self.mode == 'bin'
        nonempty = [r for r in reads if r[2] > 0]
        if res is None:
            if nonempty:
                self.harness_errors.append(f'step {self.step}: {opname} returned None after reading bytes {nonempty}')
            self.probe('reads_none')
            self.log(opname, rd.name, None)
            return
        self.probe('reads_data')
        if len(nonempty) != 1:
            self.harness_errors.append(f'step {self.step}: {opname} returned data from {len(nonempty)} file reads')
            return
        ino, a, n = nonempty[0]
        b = a + n
        mf = self.by_ino.get(ino)
        self.log(opname, rd.name, mf.name if mf else ino, a, b)
        if self.broken:
            return
        if mf is None:
            self.harness_errors.append(f'step {self.step}: {opname} read from an inode that is not a log file')
            return
        if b > mf.size:
            self.harness_errors.append(f'step {self.step}: {opname} read beyond what was written to {mf.name}')
            return
        oracle_lost = 'skipped_record' if self.prop == 'C14' else 'lost_record'
        # 1. torn / altered: the bytes must be whole records and the value must be what was written
        ok = True
        if self.mode == 'bin':
            if res != bytes(mf.logical[a:b]):
                ok = False
                why = 'returned bytes differ from the bytes written at that place'
        else:
            i = mf.offs.get(a)
            if i is None or b not in mf.ends:
                ok = False
                why = f'byte range [{a}:{b}) of {mf.name} does not start and end on record boundaries'
            else:
                vals = []
                while i < len(mf.recs) and mf.recs[i][1] <= b:
                    vals.append(mf.recs[i][2])
                    i += 1
                if block:
                    if res != vals:
                        ok = False
                        why = f'returned {str(res)[:80]!r}, written {str(vals)[:80]!r}'
                elif len(vals) != 1 or res != vals[0]:
                    ok = False
                    why = f'returned {str(res)[:80]!r}, written record(s) there {str(vals)[:80]!r}'
        if not ok:
            self.violation('torn', self.sig_reader(rd, mf), f'step {self.step}: {rd.name}.{opname}() {why}')
        f = mf.idx
        here = (f, a)
        nrec = sum(1 for (o, e, _, _) in mf.recs if o >= a and e <= b)
        rd.n_delivered += nrec
        self.probe('records_delivered', nrec)
        if rd.last_file is not None and rd.last_file != f:
            self.probe('reader_file_switches')
        rd.last_file = f
        # C14: delivered again across a crash -> must lie at or after the last completed save
        if self.prop == 'C14' and rd.name == 'r0':
            if rd.floor is not None and here < rd.floor and not self.equivalent(here, rd.floor):
                if any(ff == f and aa < b and a < bb and inc != rd.inc for (ff, aa, bb, inc) in rd.ever):
                    self.violation('redelivery_outside_window', {'reader': rd.kind},
                                   f'step {self.step}: after restart #{rd.inc} {mf.name}[{a}:{b}) was delivered again '
                                   f'although it lies before the last completed save {self.fmt_pos(rd.floor)}')
            rd.ever.append((f, a, b, rd.inc))
        pos = rd.pos
        if pos is None:
            rd.pos = (f, b)
            rd.delivered = [(f, a, b)]
            return
        pf, po = pos
        if here < pos:
            dup = any(ff == f and aa < b and a < bb for (ff, aa, bb) in rd.delivered)
            sig = self.sig_reader(rd, mf)
            sig['after'] = rd.positioned_by
            if dup:
                self.violation('duplicate', sig,
                               f'step {self.step}: {rd.name}.{opname}() delivered {mf.name}[{a}:{b}) a second time '
                               f'(reader position was {self.fmt_pos(pos)})')
            else:
                self.violation('order', sig,
                               f'step {self.step}: {rd.name}.{opname}() returned {mf.name}[{a}:{b}), which lies before '
                               f'the reader position {self.fmt_pos(pos)} (positioned by {rd.positioned_by})')
        else:
            lost_in_file = None
            if f == pf and a > po:
                lost_in_file = (po, a)
            elif f > pf and a > 0:
                lost_in_file = (0, a)
            if lost_in_file:
                sig = self.sig_reader(rd, mf)
                sig['within_file'] = True
                self.violation(oracle_lost, sig,
                               f'step {self.step}: {rd.name}.{opname}() skipped bytes [{lost_in_file[0]}:{lost_in_file[1]}) '
                               f'of {mf.name}, the file it is reading')
            if f > pf:
                gap = self.gap(pos, (f, 0))
                if gap:
                    self.violation(oracle_lost, self.sig_reader(rd, mf),
                                   f'step {self.step}: {rd.name}.{opname}() went from {self.fmt_pos(pos)} to {mf.name}[{a}:{b}) '
                                   f'and skipped {self.describe_gap(gap)}')
        rd.pos = (f, b)
        rd.delivered.append((f, a, b))

    def fmt_pos(self, pos):
        if pos is None:
            return 'floating'
        f, o = pos
        if f < len(self.files):
            return f'{self.files[f].name}@{o}'
        return f'<after file #{f - 1}>@{o}'

    # -- after every write ------------------------------------------------------------------------------------------------------------

    def after_write(self):
        if self.broken or self.prop != 'C13' or not self.files:
            return
        disk = self.disk_logs()
        newest = self.files[-1]
        total = sum(s for _, s in disk)
        allowed = max(self.total_size, newest.size)
        if total > allowed:
            self.violation('budget', {'cause': self.cause()},
                           f'step {self.step}: log files on disk total {total} bytes > max(total_size={self.total_size}, '
                           f'newest file={newest.size}); files: {disk}')
        if newest.deleted_step is not None and newest.deleted_by == 'prune':
            self.violation('newest_pruned', {'cause': self.cause()},
                           f'step {self.step}: after the write the newest log file {newest.name} is gone (pruned)')

    # -- operations ---------------------------------------------------------------------------------------------------------------------

    def tick(self):
        if self.skip_tick:
            self.skip_tick = False
        else:
            self.clock.us += self.tick_us

    def op_write(self, op):
        w = self.readers['w']
        if w.obj is None:
            self.probe('skipped_ops')
            return
        val, raw, back = make_record(self.mode, op['id'], op.get('size', 0), op.get('odd', 0))
        if self.mode == 'bin' and op.get('carrier'):
            val = wrap_carrier(val, op['carrier'])
            self.probe('bin_buffer_write')
        ts = None
        kind = op.get('ts')
        subus = False
        if kind:
            base = self.files[-1].us if self.files else self.clock.us
            d = max(1, op.get('d_us', 1))
            us = base if kind == 'same' else base - d if kind == 'back' else base + d
            if op.get('frac'):
                ts = (us * 1000 + 500) / 1e9
                subus = ts != int(ts * 1_000_000) / 1_000_000
            else:
                ts = us / 1e6
        self.fs.proc = 'w'
        self.created_in_op = None
        had_open = self.cur is not None and self.fs.has_writer(self.cur.ino, 'w')
        if self.fsgran:
            return self.op_write_fsgran(w, op, val, raw, back, ts, kind, subus)
        try:
            ret = w.obj.write(val, ts)
        except Exception as exc:
            self.observe_exc('write', exc)
            return
        mf = self.created_in_op
        if mf is not None:
            if kind:
                self.probe('given_ts_used')
                mf.subus = subus
        elif had_open:
            mf = self.cur
        self.log('write', op['id'], len(raw), ret, mf.name if mf else None)
        if self.broken:
            return
        if mf is None:
            self.probe('write_failed')
            return
        if ret != len(raw):
            self.harness_errors.append(f'step {self.step}: write() returned {ret} for {len(raw)} bytes')
            return
        mf.add(raw, back, op['id'])
        self.probe('writes')
        self.after_write()

    def op_write_fsgran(self, w, op, val, raw, back, ts, kind, subus):
        """At file-system granularity a reader can see the bytes before write() returns, so the record enters the model
        at the instant its (first) bytes reach the file (hook on_fs_write)."""
        self.pending = (raw, back, op['id'], bool(kind), subus)
        try:
            ret = w.obj.write(val, ts)
        except Exception as exc:
            self.observe_exc('write', exc)
            self.pending = None
            return
        pend, self.pending = self.pending, None
        self.log('write', op['id'], len(raw), ret)
        if self.broken:
            return
        if pend is not None and len(raw):
            self.probe('write_failed')
            return
        self.probe('writes')
        self.after_write()

    def on_fs_write(self, ino, pos, data, proc):
        pend = self.pending
        if pend is None or proc != 'w':
            return
        mf = self.by_ino.get(ino)
        if mf is None:
            return
        raw, back, rid, given, subus = pend
        self.pending = None
        if given and mf is self.created_in_op:
            mf.subus = subus
        if not self.broken:
            if pos != mf.size:
                self.harness_errors.append(f'fsgran: write landed at {pos}, model size {mf.size}')
            mf.add(raw, back, rid)

    def exec_op_fsgran(self, op, task):
        kind = op['op']
        if kind != 'clock' and task == 'w':
            self.tick()
        if kind in ('read', 'read_block'):
            self.op_read(op, kind)
        else:
            getattr(self, self.DISPATCH[kind])(op)

    def op_read(self, op, opname):
        rd = self.readers.get(op.get('r', 'r0'))
        if rd is None or rd.obj is None or rd.down:
            self.probe('skipped_ops')
            return
        self.fs.proc = rd.proc
        self.fs.read_log = log = []
        try:
            res = rd.obj.read_block() if opname == 'read_block' else rd.obj.read()
        except Exception as exc:
            self.observe_exc(opname, exc)
            return
        finally:
            self.fs.read_log = None
        self.judge_read(rd, opname, res, log)

    def op_tell(self, op):
        rd = self.readers.get(op.get('r', 'r0'))
        if rd is None or rd.obj is None or rd.down:
            self.probe('skipped_ops')
            return
        self.fs.proc = rd.proc
        try:
            lit = rd.obj.tell()
        except Exception as exc:
            self.observe_exc('tell', exc)
            return
        rd.tells.append((list(lit), rd.pos))
        self.log('tell', rd.name, lit[0], lit[1])
        self.probe('tells')
        mp = self.lit_to_model(lit)
        if not self.broken and not self.unknowable and rd.pos is not None and (mp is None or not self.equivalent(mp, rd.pos)):
            self.probe('tell_mismatch')

    def op_seek(self, op):
        rd = self.readers.get(op.get('r', 'r0'))
        if rd is None or rd.obj is None or rd.down:
            self.probe('skipped_ops')
            return
        to = op.get('to', 'start')
        self.fs.proc = rd.proc
        newpos = None
        try:
            if to == 'start':
                rd.obj.seek(('start', 0))
                newpos = (0, 0)
            elif to == 'block0':
                rd.obj.seek_block(0)
                newpos = (0, 0)
            elif to == 'end':
                rd.obj.seek(('end', 0))
            else:
                if not rd.tells:
                    rd.obj.seek(('start', 0))
                    newpos = (0, 0)
                    to = 'start'
                else:
                    lit, _ = rd.tells[int(to) % len(rd.tells)]
                    rd.obj.seek(tuple(lit))
                    far0 = self.probes.get('position_far_inside_record', 0)
                    newpos = self.lit_to_model(lit)
                    if self.probes.get('position_far_inside_record', 0) > far0:
                        self.probe('seek_far_inside_record')
                    to = 'tell'
        except Exception as exc:
            self.observe_exc('seek', exc)
            rd.pos = None
            rd.delivered = []
            return
        rd.pos = newpos
        rd.delivered = []
        rd.positioned_by = f'seek_{to}'
        self.probe('seeks')
        self.log('seek', rd.name, to, newpos)

    def op_refresh(self, op):
        rd = self.readers.get(op.get('r', 'r0'))
        if rd is None or rd.obj is None or rd.down or rd.kind == 'writer':
            self.probe('skipped_ops')
            return
        self.fs.proc = rd.proc
        before = len(rd.obj.logfiles)
        try:
            rd.obj.refresh()
        except Exception as exc:
            self.observe_exc('refresh', exc)
            return
        after = len(rd.obj.logfiles)
        self.probe('refreshes')
        if after > before:
            self.probe('refreshes_with_new_files')
        self.log('refresh', rd.name, before, after)

    def op_reopen(self, op):
        rd = self.readers.get(op.get('r', 'w'))
        if rd is None or rd.down:
            self.probe('skipped_ops')
            return
        self.fs.proc = rd.proc
        head = HEAD if (self.prop == 'C14' and rd.name == 'r0') else None
        if rd.obj is not None:
            if head:
                rd.saving = rd.pos
            try:
                rd.obj.close()
            except Exception as exc:
                self.observe_exc('close', exc)
            else:
                if head:
                    rd.saved = rd.saving
                    self.probe('saves')
            rd.saving = None
            rd.obj = None
        if rd.kind == 'writer' and self.cur is not None:
            self.cur.closed = True
        self.probe('reopens')
        if head:
            self.restart_reader(rd, graceful=True)
            return
        self.construct(rd)
        rd.pos = self.pos_after_open() if rd.obj is not None else None
        rd.delivered = []
        rd.positioned_by = 'open'
        rd.last_file = None

    def op_ext_delete(self, op):
        disk = self.disk_logs()
        if not disk:
            self.probe('skipped_ops')
            return
        nm = disk[op.get('which', 0) % len(disk)][0]
        self.fs.proc = 'ext'
        self.fs.unlink(LOGDIR + '/' + nm)
        self.log('ext_delete', nm)

    def op_clock(self, op):
        kind = op.get('kind', 'same')
        n = max(1, op.get('us', 1))
        if kind == 'back':
            self.clock.us -= n
            self.skip_tick = True
            self.probe('backward_clock_steps')
        elif kind == 'adv':
            self.clock.us += n
        else:
            self.skip_tick = True
            self.probe('clock_stands_still')
        self.log('clock', kind, self.clock.us)

    # -- C14: save, crash, restart ----------------------------------------------------------------------------------------------------------

    def op_save(self, op):
        rd = self.readers['r0']
        if rd.obj is None or rd.down:
            self.probe('skipped_ops')
            return
        self.fs.proc = rd.proc
        rd.saving = rd.pos
        try:
            rd.obj.write_head()
        except Exception as exc:
            self.observe_exc('write_head', exc)
            rd.saving = None
            return
        rd.saved = rd.saving
        rd.saving = None
        self.probe('saves')
        self.log('save', self.fmt_pos(rd.saved))

    def crash_reader(self, why):
        """The head reader's process is gone (its FS handles were already dropped by fs.crash)."""
        rd = self.readers['r0']
        self.n_crashes += 1
        self.probe('crashes')
        if rd.saving is not None:
            self.probe('crashes_in_save')
        if not (rd.down and rd.cands):     # (a crash while restarting keeps the candidates of the first crash)
            rd.floor = rd.saved if rd.saved is not None else (0, 0)
            rd.cands = [c for c in (rd.saved if rd.saved is not None else (0, 0), rd.saving) if c is not None]
        rd.saving = None
        rd.obj = None
        rd.down = True
        down = self.cur_down
        self.restart_at = self.step + 1 + down
        self.log('crash', why, self.r_ops)

    def restart_reader(self, rd, graceful=False):
        """New incarnation of the head reader on whatever the file system holds now."""
        rd.inc += 1
        rd.proc = self.head_proc = f'r0#{rd.inc}'
        rd.down = False
        self.restart_at = None
        if not graceful:
            self.n_restarts += 1
            self.probe('restarts')
        cands = [rd.saved if rd.saved is not None else (0, 0)] if graceful else rd.cands
        head_raw = self.fs.peek(HEAD)
        exc = self.construct(rd, head=HEAD)
        if exc is not None and isinstance(exc, ValueError) and 'newer log file' in str(exc):
            rd.down = True          # legal refusal (cannot happen while the clock only advances); try again later
            self.restart_at = self.step + 1
            return
        if exc is not None:
            self.violation('corrupt_head', {'reader': rd.kind, 'graceful': graceful},
                           f'step {self.step}: restart #{rd.inc} of the reader failed with {type(exc).__name__}: '
                           f'{str(exc)[:160]}; head file content: {head_raw!r}')
            # keep going with a reader that starts over, so the rest of the history still runs
            self.fs.proc = 'ext'
            try:
                self.fs.unlink(HEAD)
            except FileNotFoundError:
                pass
            if self.construct(rd, head=HEAD) is not None:
                rd.down = True
                return
            rd.pos = (0, 0)
            rd.saved = (0, 0)
            rd.floor = (0, 0)        # the harness made it start over: re-delivery from here on is its own doing
            rd.delivered = []
            return
        self.fs.proc = rd.proc
        try:
            lit = rd.obj.tell()
        except Exception as exc2:
            self.observe_exc('tell', exc2)
            lit = None
        mp = self.lit_to_model(lit) if lit is not None else None
        self.log('restart', rd.inc, lit, head_raw)
        if mp is None:
            self.violation('resume_position', {'reader': rd.kind, 'graceful': graceful},
                           f'step {self.step}: restart #{rd.inc} resumed at {lit!r}, which names no log file ever written; '
                           f'head file content: {head_raw!r}')
            rd.pos = None
        else:
            match = next((c for c in cands if self.equivalent(c, mp)), None)
            if match is None:
                lo, hi = min(cands), max(cands)
                sig = {'reader': rd.kind, 'graceful': graceful}
                text = (f'step {self.step}: restart #{rd.inc} resumed at {self.fmt_pos(mp)} (head file {head_raw!r}); '
                        f'previously saved {self.fmt_pos(cands[0])}'
                        + (f', save in progress {self.fmt_pos(cands[1])}' if len(cands) > 1 else ''))
                if mp < lo:
                    self.violation('redelivery_outside_window', sig, text + ': records before the last completed save '
                                   f'will be delivered again: {self.describe_gap(self.gap(mp, lo))}')
                elif mp > hi:
                    sig['across_restart'] = True
                    self.violation('skipped_record', sig, text + f': skipped {self.describe_gap(self.gap(hi, mp))}')
                else:
                    self.violation('resume_position', sig, text + ': neither of the two')
            rd.pos = mp
            rd.saved = mp if match is None else match
        rd.delivered = []
        rd.positioned_by = 'head'
        rd.last_file = None
        # arm the next crash of the plan, counted from here
        if not graceful and self.plan:
            self.arm(self.plan.pop(0))

    def arm(self, entry):
        at = entry['at']
        self.cur_down = entry.get('down', 0)
        if at[0] == 'fsop':
            self.crash_at = ('fsop', at[1])
        elif at[0] == 'fsop_rel':
            self.crash_at = ('fsop', self.r_ops + at[1])
        else:
            self.crash_at = ('step', at[1] if at[0] == 'step' else self.step + 1 + at[1])

    # -- running a history ----------------------------------------------------------------------------------------------------------------------

    DISPATCH = {'write': 'op_write', 'tell': 'op_tell', 'seek': 'op_seek', 'refresh': 'op_refresh',
                'reopen': 'op_reopen', 'ext_delete': 'op_ext_delete', 'clock': 'op_clock', 'save': 'op_save'}

    def exec_op(self, op):
        kind = op['op']
        if kind != 'clock':
            self.tick()
        if kind in ('read', 'read_block'):
            self.op_read(op, kind)
        else:
            getattr(self, self.DISPATCH[kind])(op)

    def run(self):
        self.bind()
        try:
            self.step = -1
            self.setup_parties()
            if self.prop == 'C14':
                rd = self.readers['r0']
                rd.proc = self.head_proc = 'r0#0'
                self.cur_down = 0
                self.construct(rd, head=HEAD)
                rd.pos = (0, 0)
                rd.saved = None
                rd.positioned_by = 'head'
                if self.plan:
                    self.arm(self.plan.pop(0))
            for i, op in enumerate(self.history):
                self.step = i
                if self.prop == 'C14':
                    self.c14_before_step(op)
                try:
                    self.exec_op(op)
                except SimCrash:
                    self.crash_reader('fsop')
            self.step = len(self.history)
            if self.prop == 'C14':
                rd = self.readers['r0']
                self.crash_at = None
                if rd.down:
                    self.tick()
                    try:
                        self.restart_reader(rd)
                    except SimCrash:
                        self.harness_errors.append('crash during final restart')
                    self.crash_at = None
            self.drain()
        finally:
            self.unbind()
        return self

    def c14_before_step(self, op):
        rd = self.readers['r0']
        if rd.down and self.restart_at is not None and self.step >= self.restart_at:
            self.tick()
            try:
                self.restart_reader(rd)
            except SimCrash:
                self.crash_reader('fsop-in-restart')
        ca = self.crash_at
        if ca is not None and ca[0] == 'step' and self.step >= ca[1] and not rd.down and rd.obj is not None \
                and op.get('op') in ('read', 'read_block', 'save', 'reopen', 'refresh'):
            self.crash_at = None
            self.fs.crash(rd.proc)
            self.crash_reader('between-ops')

    def drain(self):
        """End of history: every party with a defined position follows the log until it is told twice that nothing is
        left; whatever is then still unread in files that exist was lost."""
        w = self.readers['w']
        if w.obj is not None:
            self.fs.proc = 'w'
            try:
                w.obj.flush()
            except Exception as exc:
                self.observe_exc('flush', exc)
        nrec = sum(len(mf.recs) for mf in self.files)
        for rd in self.readers.values():
            if rd.obj is None or rd.down:
                continue
            for rnd in range(3):
                got = 0
                for _ in range(nrec + len(self.files) + 8):
                    self.tick()
                    self.fs.proc = rd.proc
                    self.fs.read_log = log = []
                    try:
                        res = rd.obj.read()
                    except Exception as exc:
                        self.observe_exc('drain_read', exc)
                        break
                    finally:
                        self.fs.read_log = None
                    self.judge_read(rd, 'read', res, log)
                    if res is None:
                        break
                    got += 1
                    self.probe('drain_reads')
                if rd.kind != 'writer':
                    self.fs.proc = rd.proc
                    try:
                        rd.obj.refresh()
                    except Exception as exc:
                        self.observe_exc('drain_refresh', exc)
                        break
            if rd.pos is None or self.broken:
                continue
            gap = self.gap(rd.pos, (len(self.files), 0))
            if gap:
                oracle = 'skipped_record' if self.prop == 'C14' else 'lost_record'
                sig = self.sig_reader(rd)
                sig['at_end'] = True
                self.violation(oracle, sig,
                               f'end of history: {rd.name} followed the log until read() returned None three times '
                               f'(with refreshes) from position {self.fmt_pos(rd.pos)} but never got '
                               f'{self.describe_gap(gap)}')

    # -- results --------------------------------------------------------------------------------------------------------------------------------

    def summary(self):
        return {
            'files': [{'name': mf.name, 'records': len(mf.recs), 'size': mf.size, 'deleted_step': mf.deleted_step,
                       'deleted_by': mf.deleted_by} for mf in self.files],
            'disk': self.disk_logs(),
            'readers': {n: {'kind': rd.kind, 'pos': self.fmt_pos(rd.pos), 'delivered': rd.n_delivered}
                        for n, rd in self.readers.items()},
        }


# =========================================================================================================================
# generation
# =========================================================================================================================

def gen_knobs_c13(ch, tier='quick'):
    mode = MODES[ch.weighted('gen', [3, 3, 2, 2])]
    fs_kind = ch.weighted('gen', [4, 3, 2])
    file_size = ch.rng_int('gen', 20, 80) if fs_kind == 0 else ch.rng_int('gen', 1, 20) if fs_kind == 1 \
        else ch.rng_int('gen', 80, 200)
    tk = ch.weighted('gen', [3, 2, 2, 2, 2, 1])
    total_size = [10 ** 9, file_size * 4, file_size * 2 + ch.rng_int('gen', 0, 30), file_size,
                  max(0, file_size // 2), file_size * 10][tk]
    readers = [not ch.chance('gen', 1, 3)]
    if ch.chance('gen', 1, 2):
        readers.append(not ch.chance('gen', 1, 2))
    knobs = {
        'mode': mode, 'file_size': file_size, 'total_size': total_size, 'readers': readers,
        'flush': not ch.chance('gen', 1, 8),
        'tick_us': [1000, 1, 1_000_000, 0][ch.weighted('gen', [10, 3, 2, 1])],
        'n_ops': ch.rng_int('gen', 6, 60 if tier == 'quick' else 120),
        # swarm: which kinds of trouble this history may contain at all
        'clock_ops': ch.chance('gen', 1, 3),
        'given_ts': ch.weighted('gen', [5, 2, 1]),       # 0 never, 1 forward only, 2 any
        'frac_ts': ch.chance('gen', 1, 4),
        'ext_delete': ch.chance('gen', 1, 2),
        'reopen': ch.chance('gen', 1, 2),
        'seeks': ch.chance('gen', 2, 3),
        'big': ch.chance('gen', 1, 4),
    }
    return knobs


def gen_history_c13(ch, knobs):
    names = ['w'] + [f'r{i}' for i in range(len(knobs['readers']))]
    rdonly = names[1:]
    file_size = knobs['file_size']
    hist = []
    rid = 0
    w_write = 10
    weights = [w_write, 8, 3, 2 if knobs['seeks'] else 0, 2 if knobs['seeks'] else 0, 2,
               1 if knobs['reopen'] else 0, 1 if knobs['ext_delete'] else 0, 2 if knobs['clock_ops'] else 0]
    kinds = ['write', 'read', 'read_block', 'seek', 'tell', 'refresh', 'reopen', 'ext_delete', 'clock']
    if knobs.get('huge'):          # the reader mostly asks where the end is and comes back to it later
        weights[3], weights[4] = 8, 8
    for _ in range(knobs['n_ops']):
        kind = kinds[ch.weighted('ops', weights)]
        if kind == 'write':
            hi = 300 if knobs['big'] else max(4, min(300, file_size))
            sk = ch.weighted('ops', [6, 2, 1])
            size = ch.rng_int('ops', 3, max(3, hi // 2)) if sk == 0 else ch.rng_int('ops', 0, 3) if sk == 1 \
                else ch.rng_int('ops', hi // 2, hi)
            if knobs.get('huge') and ch.chance('ops', 1, 4):
                size = ch.rng_int('ops', 4100, 9500)
            op = {'op': 'write', 'id': rid, 'size': size}
            if ch.chance('ops', 1, 8):
                op['odd'] = ch.rng_int('ops', 1, len(ODD))
            if knobs['mode'] == 'bin' and ch.chance('ops', 1, 3):
                # bin mode takes any buffer: bytearray, memoryview, arrays with multi-byte items (len() != nbytes)
                op['carrier'] = c = ch.rng_int('ops', 1, len(CARRIERS))
                op['size'] = size + (-size % CARRIERS[c - 1][1])
            rid += 1
            g = knobs['given_ts']
            if g and ch.chance('ops', 1, 3):
                tsk = 'fwd' if g == 1 else ['fwd', 'same', 'back'][ch.weighted('ops', [2, 1, 1])]
                op['ts'] = tsk
                op['d_us'] = [1, 1000, 2_000_000][ch.weighted('ops', [2, 3, 1])]
                if knobs['frac_ts'] and ch.chance('ops', 1, 2):
                    op['frac'] = 1
        elif kind in ('read', 'read_block', 'tell'):
            op = {'op': kind, 'r': names[ch.weighted('ops', [2] + [3] * len(rdonly))]}
        elif kind == 'seek':
            r = names[ch.weighted('ops', [2] + [3] * len(rdonly))]
            tk = ch.weighted('ops', [3, 4, 1, 1] if not knobs.get('huge') else [1, 4, 5, 0])
            to = 'start' if tk == 0 else ch.rng_int('ops', 0, 7) if tk == 1 else 'end' if tk == 2 else 'block0'
            if tk == 1 and knobs.get('huge') and not ch.chance('ops', 1, 4):
                to = -1                 # the most recent tell()
            op = {'op': 'seek', 'r': r, 'to': to}
        elif kind == 'refresh':
            op = {'op': 'refresh', 'r': ch.pick('ops', rdonly)}
        elif kind == 'reopen':
            op = {'op': 'reopen', 'r': names[ch.weighted('ops', [3] + [1] * len(rdonly))]}
        elif kind == 'ext_delete':
            op = {'op': 'ext_delete', 'which': ch.rng_int('ops', 0, 5)}
        else:
            ck = ['same', 'back', 'adv'][ch.weighted('ops', [2, 2, 1])]
            op = {'op': 'clock', 'kind': ck, 'us': [1, 1000, 3_000_000][ch.weighted('ops', [1, 2, 1])]}
        hist.append(op)
    return hist


def gen_knobs_c14(ch, tier='quick'):
    mode = MODES[ch.weighted('gen', [3, 2, 2, 2])]
    file_size = ch.rng_int('gen', 10, 60) if not ch.chance('gen', 1, 4) else ch.rng_int('gen', 1, 10)
    tk = ch.weighted('gen', [2, 3, 3, 1])
    total_size = [10 ** 9, file_size * 4, file_size * 2 + ch.rng_int('gen', 0, 20), file_size][tk]
    return {
        'mode': mode, 'file_size': file_size, 'total_size': total_size,
        'readers': [not ch.chance('gen', 1, 3)],
        'flush': True, 'tick_us': 1000,
        'n_ops': ch.rng_int('gen', 6, 30 if tier == 'quick' else 60),
        'ext_delete': ch.chance('gen', 1, 4),
        'cycles': 1 + ch.weighted('gen', [3, 2, 1] if tier == 'quick' else [2, 2, 2, 2]),
        'other_points': 6 if tier == 'quick' else 16,
        'crash_seed': ch.draw('gen', 1 << 30),
        'crash_plans': None,
    }


def gen_history_c14(ch, knobs):
    hist = []
    rid = 0
    file_size = knobs['file_size']
    kinds = ['write', 'read', 'read_block', 'save', 'refresh', 'reopen', 'ext_delete']
    weights = [10, 8, 2, 4, 1, 1, 1 if knobs['ext_delete'] else 0]
    for _ in range(knobs['n_ops']):
        kind = kinds[ch.weighted('ops', weights)]
        if kind == 'write':
            hi = max(4, min(120, file_size))
            size = ch.rng_int('ops', 3, max(3, hi // 2)) if not ch.chance('ops', 1, 5) else ch.rng_int('ops', 0, hi)
            op = {'op': 'write', 'id': rid, 'size': size}
            rid += 1
        elif kind == 'ext_delete':
            op = {'op': 'ext_delete', 'which': ch.rng_int('ops', 0, 3)}
        elif kind == 'reopen':
            op = {'op': 'reopen', 'r': 'r0'}
        elif kind == 'save':
            op = {'op': 'save'}
        else:
            op = {'op': kind, 'r': 'r0'}
        hist.append(op)
    return hist


# =========================================================================================================================
# cases
# =========================================================================================================================

def _result(prop, seed, knobs, history, streams, digest, violations, probes, harness, steps, vtime_s, nontrivial, extra=None):
    res = {'seed': seed, 'history': history, 'knobs': knobs, 'streams': streams, 'digest': digest,
           'violations': violations, 'nontrivial': nontrivial, 'steps': steps, 'vtime_s': vtime_s,
           'harness_errors': harness, 'probes': probes}
    if extra:
        res.update(extra)
    return res


def run_case_c13(seed, replay=None, tier='quick'):
    if replay is not None:
        ch = ChoiceSource(replay=replay.get('streams') or {})
        knobs, history = replay['knobs'], replay['history']
    else:
        ch = ChoiceSource(seed)
        knobs = gen_knobs_c13(ch, tier)
        if tier == 'thorough' and ch.chance('gen', 1, 3):
            knobs['fsgran'] = True
            knobs['short_write'] = ch.chance('gen', 1, 3)
            # records longer than the 4096-byte look-back window of RollLog.seek(), partially on disk when a reader
            # asks for its position (round-5 seeded change C14-r5-2)
            knobs['huge'] = knobs['short_write'] and knobs['mode'] != 'bin' and ch.chance('gen', 1, 2)
        history = gen_history_c13(ch, knobs)
    if knobs.get('fsgran'):
        return run_fsgran(seed, ch, knobs, history)
    world = RollWorld('C13', knobs, history)
    harness = world.harness_errors
    try:
        world.run()
    except SimCrash:
        harness.append('unexpected SimCrash')
    except Exception:
        import traceback
        harness.append(traceback.format_exc())
    nontrivial = world.probes.get('records_delivered', 0) > 0 and len(world.files) >= 2
    extra = {}
    if world.violations or harness:
        extra = {'trace': [list(map(_j, t)) for t in world.trace[-200:]], 'summary': world.summary()}
    return _result('C13', seed, knobs, history, ch.export(), world.digest.hex(), world.violations, world.probes,
                   list(harness), len(world.trace), (world.clock.us - EPOCH_US) / 1e6, nontrivial, extra)


def _j(x):
    if isinstance(x, (bytes, bytearray)):
        return x.decode('latin-1')
    if isinstance(x, (tuple, list)):
        return [_j(y) for y in x]
    return x


def crash_points(ref, knobs):
    """Primary crash points from the crash-free reference run: every FS call of the reader inside a save (crash
    *before* that call) plus the call right after it (crash after the last call of the save), every boundary before a
    reader operation, and a sample of the reader's other FS calls."""
    pts = []
    seen = set()
    log = ref.r_oplog
    in_save = [n for (n, kind, step, s) in log if s]
    for n in in_save:
        for m in (n, n + 1):
            if m not in seen and m <= len(log) + 1:
                seen.add(m)
                pts.append(['fsop', m])
    for i, op in enumerate(ref.history):
        if op['op'] in ('read', 'read_block', 'save', 'reopen', 'refresh'):
            pts.append(['step', i])
    others = [n for (n, kind, step, s) in log if n not in seen]
    return pts, others


def run_case_c14(seed, replay=None, tier='quick'):
    if replay is not None:
        ch = ChoiceSource(replay=replay.get('streams') or {})
        knobs, history = replay['knobs'], replay['history']
    else:
        ch = ChoiceSource(seed)
        knobs = gen_knobs_c14(ch, tier)
        history = gen_history_c14(ch, knobs)
    digest = Digest()
    violations = []
    vkeys = set()
    probes = {}
    harness = []
    viol_plans = []
    traces = {}

    def one(plan):
        world = RollWorld('C14', knobs, history, plan=[dict(p) for p in plan])
        try:
            world.run()
        except SimCrash:
            world.harness_errors.append('unexpected SimCrash')
            world.unbind()
        except Exception:
            import traceback
            world.harness_errors.append(traceback.format_exc())
            world.unbind()
        digest.add(json.dumps(plan), world.digest.hex())
        for k, v in world.probes.items():
            probes[k] = probes.get(k, 0) + v
        harness.extend(world.harness_errors)
        for v in world.violations:
            key = (v['oracle'], json.dumps(v['signature'], sort_keys=True))
            if key not in vkeys:
                vkeys.add(key)
                v = dict(v)
                v['message'] = f'[crash plan {json.dumps(plan)}] ' + v['message']
                violations.append(v)
                viol_plans.append(plan)
                traces[len(violations) - 1] = {'plan': plan, 'trace': [list(map(_j, t)) for t in world.trace[-200:]],
                                               'summary': world.summary()}
        return world

    ref = one([])
    plans = knobs.get('crash_plans')
    if plans is None:
        ch2 = ChoiceSource(knobs.get('crash_seed', 0))
        pts, others = crash_points(ref, knobs)
        for _ in range(min(knobs.get('other_points', 6), len(others))):
            n = others.pop(ch2.draw('pts', len(others)))
            pts.append(['fsop', n])
        plans = []
        for at in pts:
            plan = [{'at': at, 'down': ch2.rng_int('plan', 0, 3) if ch2.chance('plan', 1, 2) else 0}]
            for _ in range(knobs.get('cycles', 1) - 1):
                if not ch2.chance('plan', 1, 2):
                    break
                if ch2.chance('plan', 1, 3):
                    plan.append({'at': ['step_rel', ch2.rng_int('plan', 0, 4)], 'down': ch2.rng_int('plan', 0, 2)})
                else:
                    plan.append({'at': ['fsop_rel', ch2.rng_int('plan', 1, 14)], 'down': ch2.rng_int('plan', 0, 2)})
            plans.append(plan)
    n_crash = n_restart = 0
    delivered_after_restart = False
    for plan in plans:
        w = one(plan)
        n_crash += w.n_crashes
        n_restart += w.n_restarts
        if w.n_restarts and any(inc > 0 for (_, _, _, inc) in w.readers['r0'].ever):
            delivered_after_restart = True
    probes['crash_points'] = len(plans)
    knobs_out = dict(knobs)
    if viol_plans:
        knobs_out['viol_plans'] = viol_plans[:3]
    nontrivial = probes.get('crashes_in_save', 0) > 0 and delivered_after_restart
    extra = {'runs': 1 + len(plans)}
    if violations or harness:
        extra['traces'] = traces
    return _result('C14', seed, knobs_out, history, ch.export(), digest.hex(), violations, probes, harness[:5],
                   len(history) * (1 + len(plans)), 0.0, nontrivial, extra)


# =========================================================================================================================
# thorough tier of C13: writer and one reader interleaved at file-system-call granularity
# =========================================================================================================================

def run_fsgran(seed, ch, knobs, history):
    """The writer's operations (write, close+reopen of the writer, clock, external delete) and the operations of the
    rdonly reader r0 (read, read_block, seek, tell, refresh) run as two scheduler tasks; every file-system call is a
    yield point, so the reader can run between any two FS calls of a write (open / write / close / unlink of a roll-over
    with pruning) and vice versa; the order is drawn from the choice source (stream 'sched') and replayed from it.
    Operations of other parties in the history are ignored here. Exceptions that escape an API call at this granularity
    are observations. With knobs['short_write'] a write(2) of the writer may transfer only part of its bytes, the rest
    following in a second call (the `short_write` fault)."""
    from sim.core import Scheduler
    knobs = dict(knobs)
    knobs['flush'] = True
    world = RollWorld('C13', knobs, history)
    harness = world.harness_errors
    sched = Scheduler(ch, max_steps=200_000)
    world.bind()
    try:
        world.step = -1
        world.setup_parties()
        world.fs.on_write = world.on_fs_write
        if knobs.get('short_write'):
            def short(handle, n):
                if handle.proc != 'w' or not ch.chance('short', 1, 3):
                    return None
                return 1 + ch.draw('short', n - 1)
            world.fs.short_write = short
        w_ops = [(i, op) for i, op in enumerate(history)
                 if op['op'] in ('write', 'clock', 'ext_delete') or (op['op'] == 'reopen' and op.get('r') == 'w')]
        r_ops = [(i, op) for i, op in enumerate(history)
                 if op.get('r') == 'r0' and op['op'] in ('read', 'read_block', 'seek', 'tell', 'refresh')]

        def runner(name, ops):
            def main():
                for i, op in ops:
                    sched.block(label=f'{name}:op')
                    world.step = i
                    world.exec_op_fsgran(op, name)
            return main

        pw = sched.new_proc('writer')
        pr = sched.new_proc('reader')
        world.sched = sched
        sched.spawn(pw, 'writer', runner('w', w_ops))
        sched.spawn(pr, 'reader', runner('r', r_ops))
        sched.run()
        world.sched = None
        for t in sched.tasks:
            if t.exc is not None and t.exc not in ('killed', 'aborted'):
                harness.append(f'task {t.name} died: {t.exc!r}')
        sched.teardown()
        harness.extend(sched.errors)
        world.step = len(history)
        world.fs.short_write = None
        world.drain()
    except Exception:
        import traceback
        harness.append(traceback.format_exc())
        world.sched = None
        try:
            sched.teardown()
        except Exception:
            pass
    finally:
        world.sched = None
        world.unbind()
    world.digest.add('sched', sched.digest.hex())
    world.probe('fsgran_cases')
    world.probe('sched_steps', sched.step)
    nontrivial = world.probes.get('records_delivered', 0) > 0 and len(world.files) >= 2
    extra = {}
    if world.violations or harness:
        extra = {'trace': [list(map(_j, t)) for t in world.trace[-200:]], 'summary': world.summary()}
    return _result('C13', seed, knobs, history, ch.export(), world.digest.hex(), world.violations, world.probes,
                   list(harness), sched.step, (world.clock.us - EPOCH_US) / 1e6, nontrivial, extra)
