"""C10 world: seeded operation histories over a pool of real `Frame` objects, and a small reference model whose oracle is
evaluated after every step.

A history is a JSON-able list of ops. Every op that yields a frame appends one pool slot (so slot k is the result of the
k-th slot-creating op); `src` / `target` are slot indices (negative = counted from the end, resolved when executed). An
op whose slot is missing, dead or unsuitable (e.g. a write through a read-only image) is skipped and does not appear in
the *executed* history, which is what results, digests and replay files carry - replaying it executes every op.

    {'op': 'new_array', 'fmt': 'BGR', 'h': 2, 'w': 3, 'writable': True, 'fill': 7}
    {'op': 'from_jpg', 'fmt': 'RGB', 'h': 2, 'w': 2, 'fill': 0, 'dims': True}       dims: height/width passed (lazy decode)
    {'op': 'newdata', 'src': 0}    Frame(frame, {..})          {'op': 'relabel', 'src': 0, 'fmt': 'RGB'}   Frame(frame, None, fmt)
    {'op': 'copy'|'pickle'|'rw'|'ro'|'rgb'|'bgr'|'gray'|'rw_rgb'|'rw_bgr'|'ro_rgb'|'ro_bgr', 'src': 0}
    {'op': 'image'|'jpg', 'src': 0}                                                  reads, no slot
    {'op': 'write_px', 'target': 0, 'via': 'image'|'orig', 'y': 0, 'x': 1, 'val': [9, 8, 7]}

Reference model. Every array object ever seen is tracked (strong reference) with the pixels it must hold: its content
when first seen, changed only by `write_px` (applied to every tracked array laid over the same memory). Every frame
object has a model entry: format, the tracked array that is its image (or "not decoded" plus the jpg it was built from).
"Source pixels now" is always the *model's* copy, never the real memory. Oracles:

  stale_view        a frame returned by a construction / view / conversion / copy / pickle op does not show
                    convert(source pixels at that moment) in the promised format (channel reversal RGB<->BGR, cv2
                    luminance for GRAY, channel replication GRAY->colour); a lazily decoded image differs from the decode
                    of its jpg; `.image` returns something else than the frame's pixels. A frame obtained earlier is
                    *not* required to follow its source afterwards - only its own array's tracked content.
  aliased_copy      a result documented in frame.py as a NEW copy shares memory with its source (or is the source)
  wrong_writability a result does not have the documented writability
  ro_made_writable  an array seen read-only is writable later
  pixels_changed    a tracked array changed without a write through memory it shares (covers "a read-only image can no
                    longer change" and keeps every pool frame's pixels pinned between the checks at return time)
  jpg_on_writable   a frame reports has_jpg while its decoded image is writable (or, when the jpg first shows up, while a
                    writable tracked array overlaps the image)
  jpg_mismatch      a cached / returned jpg is not an encoding of the frame's pixels: byte-identical to the given jpg and
                    decoding exactly to the image when the frame was built from a jpg; otherwise within JPEG tolerance
  op_raised         an operation of the real code raised

JPEG tolerance: the images are 1..20 pixels with arbitrary edits, on which default-quality JPEG (chroma subsampling) is
off by a mean absolute error of up to ~90 grey levels for colour noise, ~4 for GRAY. A fixed bound would either alarm on
correct code or accept anything, so the bound is relative to what cv2's own default encoder loses on the same pixels:
err(jpg) <= 2 * err(fresh encode of the model pixels) + 8. A jpg of other pixels (channel-swapped, pre-edit) is mainly
caught structurally: it may only be attached to a read-only array, and read-only arrays are pinned by pixels_changed.
"""

import json
import pickle

import cv2
import numpy as np

from sim import patch as P
from sim.choice import Digest

cv2.setNumThreads(0)   # no OpenCV worker threads: forked workers, deterministic, and faster on 20-pixel images

PROP = 'C10'
FORMATS = ('BGR', 'RGB', 'GRAY')
VIEW_OPS = ('rw', 'ro', 'rgb', 'bgr', 'gray', 'rw_rgb', 'rw_bgr', 'ro_rgb', 'ro_bgr')
DERIVE_OPS = VIEW_OPS + ('copy', 'pickle', 'newdata', 'relabel')     # take 'src', yield a frame -> one new slot
CREATE_OPS = ('new_array', 'from_jpg')
READ_OPS = ('image', 'jpg')
SLOT_OPS = CREATE_OPS + DERIVE_OPS
MAX_H, MAX_W = 5, 4
TARGET_FMT = {'rgb': 'RGB', 'bgr': 'BGR', 'gray': 'GRAY', 'rw_rgb': 'RGB', 'rw_bgr': 'BGR', 'ro_rgb': 'RGB', 'ro_bgr': 'BGR'}


def frame_class():
    return P.mod('openfilter.filter_runtime.frame').Frame


# -- pixels ------------------------------------------------------------------------------------------------------------

def make_array(fmt, h, w, fill):
    """Deterministic image: channels differ (so a missing or doubled swap shows), neighbours differ, fill shifts it."""
    y, x, c = np.indices((h, w, 3))
    a = ((fill * 37 + y * 11 + x * 23 + c * 67) % 256).astype(np.uint8)
    return np.ascontiguousarray(a[..., 1]) if fmt == 'GRAY' else a


def convert(px, sfmt, dfmt):
    """Ground truth of a format conversion."""
    if sfmt == dfmt:
        return px
    if dfmt == 'GRAY':
        return cv2.cvtColor(px, cv2.COLOR_RGB2GRAY if sfmt == 'RGB' else cv2.COLOR_BGR2GRAY)
    if sfmt == 'GRAY':
        return np.repeat(px[..., None], 3, axis=2)
    return px[..., ::-1]


def same(a, b):
    return a.shape == b.shape and np.array_equal(a, b)


def imread_flag(fmt):
    return 0 if fmt == 'GRAY' else cv2.IMREAD_COLOR


def layout(a):
    return (a.__array_interface__['data'][0], a.shape, a.strides)


# -- model -------------------------------------------------------------------------------------------------------------

class Rec:
    """One array object ever seen."""
    __slots__ = ('arr', 'expect', 'ro', 'epoch', 'flagged')

    def __init__(self, arr):
        self.arr = arr
        self.expect = arr.copy()
        self.ro = not arr.flags.writeable
        self.epoch = 0          # number of writes that reached this array
        self.flagged = False


class FM:
    """Model of one Frame object."""
    __slots__ = ('frame', 'fmt', 'buf', 'jpg_given', 'views', 'had_jpg', 'flagged')

    def __init__(self, frame, fmt, buf, jpg_given):
        self.frame = frame
        self.fmt = fmt
        self.buf = buf              # Rec of its image, None while not decoded
        self.jpg_given = jpg_given  # bytes the frame's image came from (from_jpg lineage), else None
        self.views = {}             # op -> (result frame, source epoch) of the latest call of that view op on this frame
        self.had_jpg = False
        self.flagged = set()        # state oracles already reported for this frame (reported at the step they appear)


class World:
    def __init__(self):
        self.Frame = frame_class()
        self.pool = []       # slot -> (frame | None, original array | None)
        self.fm = {}         # id(frame) -> FM     (frames stay alive in the pool / here)
        self.recs = {}       # id(array) -> Rec
        self.history = []    # executed ops
        self.violations = []
        self._vkeys = set()
        self.probes = {}
        self.digest = Digest()
        self.focus = 0
        self._dec = {}
        self._enc_err = {}
        self.n_views = self.n_writes = self.n_jpg_reads = 0

    # -- bookkeeping ---------------------------------------------------------------------------------------------------

    def probe(self, name, n=1):
        self.probes[name] = self.probes.get(name, 0) + n

    def violate(self, oracle, signature, message):
        key = (oracle, json.dumps(signature, sort_keys=True))
        if key in self._vkeys:
            return
        self._vkeys.add(key)
        step = len(self.history) - 1
        self.violations.append({'property': PROP, 'oracle': oracle, 'signature': signature, 'step': step, 'vtime': None,
                                'message': f'step {step} {json.dumps(self.history[step], sort_keys=True)}: {message}'})

    def once(self, m, oracle, signature, message):
        if oracle not in m.flagged:
            m.flagged.add(oracle)
            self.violate(oracle, signature, message)

    def track(self, arr):
        rec = self.recs.get(id(arr))
        if rec is None:
            rec = self.recs[id(arr)] = Rec(arr)
        return rec

    def decode(self, jpg, fmt):
        key = (bytes(jpg), imread_flag(fmt))
        img = self._dec.get(key)
        if img is None:
            img = self._dec[key] = cv2.imdecode(np.frombuffer(key[0], np.uint8), key[1])
        return img

    def truth(self, m):
        """The pixels frame model m has right now."""
        return m.buf.expect if m.buf is not None else self.decode(m.jpg_given, m.fmt)

    def jpg_close(self, jpg, px, fmt):
        """Is jpg an encoding of px within the (content-relative) JPEG tolerance?"""
        dec = self.decode(jpg, fmt)
        if dec is None or dec.shape != px.shape:
            return False
        key = (px.tobytes(), px.shape)
        ref = self._enc_err.get(key)
        if ref is None:
            fresh = bytes(cv2.imencode('.jpg', px)[1])
            ref = self._enc_err[key] = (np.abs(self.decode(fresh, fmt).astype(np.int16) - px).mean(), fresh)
        if ref[1] == bytes(jpg):
            self.probe('jpg_identical_to_fresh_encode')
            return True
        return np.abs(dec.astype(np.int16) - px).mean() <= 2 * ref[0] + 8

    def slot_frame(self, op, key):
        i = op.get(key)
        if not isinstance(i, int) or isinstance(i, bool):
            return None, None
        if i < 0:
            i += len(self.pool)
        if not 0 <= i < len(self.pool) or self.pool[i][0] is None:
            return None, None
        return i, self.pool[i][0]

    def writable_targets(self):
        """[(slot, via)] through which a pixel can be written right now."""
        out = []
        for i, (f, orig) in enumerate(self.pool):
            if f is None:
                continue
            if f.has_raw and f.image.flags.writeable:
                out.append((i, 'image'))
            elif orig is not None and orig.flags.writeable:
                out.append((i, 'orig'))
        return out

    # -- executing one op ----------------------------------------------------------------------------------------------

    def apply(self, op):
        """Execute one op against the real Frame and the model; False if it had to be skipped."""
        kind = op.get('op')
        if kind in CREATE_OPS:
            ok = self.do_create(dict(op))
        elif kind in DERIVE_OPS:
            ok = self.do_derive(dict(op))
        elif kind in READ_OPS:
            ok = self.do_read(dict(op))
        elif kind == 'write_px':
            ok = self.do_write(dict(op))
        else:
            ok = False
        if not ok:
            self.probe('skipped_ops')
            return False
        self.sync(kind)
        return True

    def begin(self, op):
        self.history.append(op)

    def call(self, op, fn):
        """Run real code; an exception is an observation (op_raised), not a harness error."""
        try:
            return True, fn()
        except Exception as exc:
            self.violate('op_raised', {'op': op['op'], 'exc': type(exc).__name__}, f'{type(exc).__name__}: {str(exc)[:200]}')
            return False, None

    def observe(self, op, frame, extra=()):
        if frame is None:
            self.digest.add(json.dumps(op, sort_keys=True), None, *extra)
            return
        first = next(i for i, (f, _) in enumerate(self.pool) if f is frame)
        px = frame.image.tobytes() if frame.has_raw else None
        self.digest.add(json.dumps(op, sort_keys=True), first, frame.format, frame.shape, frame.is_rw, frame.has_jpg,
                        frame.has_raw, px, *extra)

    def do_create(self, op):
        kind, fmt = op['op'], op.get('fmt')
        h, w, fill = op.get('h', 1), op.get('w', 1), op.get('fill', 0)
        if fmt not in FORMATS or not (1 <= h <= 64 and 1 <= w <= 64):
            return False
        arr = make_array(fmt, h, w, fill)
        data = {'n': len(self.history)}
        self.begin(op)
        if kind == 'new_array':
            if not op.get('writable', True):
                arr.flags.writeable = False
            ok, f = self.call(op, lambda: self.Frame(arr, data, None if fmt == 'GRAY' else fmt))
            if ok:
                self.fm[id(f)] = FM(f, fmt, self.track(arr), None)
                if f.image is not arr:
                    self.violate('stale_view', {'op': kind, 'cause': 'constructor_replaced_image'}, 'frame.image is not the array given')
            self.pool.append((f, arr if ok else None))
        else:
            jpg = bytes(cv2.imencode('.jpg', arr)[1])
            dims = (h, w) if op.get('dims') else (None, None)
            ok, f = self.call(op, lambda: self.Frame.from_jpg(jpg, data, dims[0], dims[1], fmt))
            if ok:
                self.fm[id(f)] = FM(f, fmt, None, jpg)     # sync() checks an eagerly decoded image against the jpg
                self.probe('jpg_given')
                if op.get('dims'):
                    self.probe('jpg_lazy' if not f.has_raw else 'jpg_eager')
            self.pool.append((f, None))
        self.observe(op, f)
        return True

    def expectation(self, kind, op, m, s_rw):
        """(format, writability, must be a new copy) that frame.py documents for op on a source with model m."""
        if kind == 'rw':
            return m.fmt, True, not s_rw
        if kind == 'ro':
            return m.fmt, False, s_rw
        if kind in ('rgb', 'bgr', 'gray'):
            return TARGET_FMT[kind], s_rw, False          # "same writability"; sharing is not documented either way
        if kind in ('rw_rgb', 'rw_bgr'):
            return TARGET_FMT[kind], True, not (m.fmt == TARGET_FMT[kind] and s_rw)
        if kind in ('ro_rgb', 'ro_bgr'):
            return TARGET_FMT[kind], False, not (m.fmt == TARGET_FMT[kind] and not s_rw)
        if kind == 'copy':
            return m.fmt, s_rw, s_rw                      # "image copy of writable image, no copy if image is readonly"
        if kind == 'pickle':
            return m.fmt, s_rw, True
        if kind == 'relabel':
            return op['fmt'], s_rw, False
        return m.fmt, s_rw, False                         # newdata: image (including cached jpg) taken over

    def do_derive(self, op):
        kind = op['op']
        i, S = self.slot_frame(op, 'src')
        if S is None:
            return False
        m = self.fm[id(S)]
        if kind == 'relabel' and op.get('fmt') == 'swap':      # the other colour order of the same pixels
            if m.fmt == 'GRAY':
                return False
            op['fmt'] = 'RGB' if m.fmt == 'BGR' else 'BGR'
        if kind == 'relabel' and (op.get('fmt') not in FORMATS or (op['fmt'] == 'GRAY') != (m.fmt == 'GRAY')):
            return False      # a label that contradicts the number of channels is garbage in
        op['src'] = self.focus = i
        s_rw = m.buf is not None and not m.buf.ro
        s_fmt = m.fmt
        truth = self.truth(m)
        want_fmt, want_rw, want_new = self.expectation(kind, op, m, s_rw)
        self.begin(op)
        if kind in VIEW_OPS:
            self.n_views += 1
            fn = lambda: getattr(S, kind)
        elif kind == 'copy':
            fn = S.copy
        elif kind == 'pickle':
            self.probe('pickle_roundtrip')
            fn = lambda: pickle.loads(pickle.dumps(S))
        elif kind == 'newdata':
            fn = lambda: self.Frame(S, {'n': len(self.history)})
        else:
            fn = lambda: self.Frame(S, None, op['fmt'])
        ok, R = self.call(op, fn)
        if not ok or not isinstance(R, self.Frame):
            if ok:
                self.violate('stale_view', {'op': kind, 'cause': 'no_frame_returned'}, f'returned {type(R).__name__}')
            self.pool.append((None, None))
            self.observe(op, None)
            return True
        self.pool.append((R, None))
        sig_src = {'op': kind, 'src_writable': s_rw, 'same_fmt': s_fmt == want_fmt}
        prev = m.views.get(kind)
        cached = R is not S and id(R) in self.fm      # a frame object that was handed out before: some cache returned it
        epoch = m.buf.epoch if m.buf is not None else 0
        if kind in VIEW_OPS:
            if cached:
                self.probe('cache_hit_' + kind)
            if prev is not None and prev[1] != epoch:
                self.probe('review_after_write')
                if cached:
                    self.probe('cache_hit_after_write')
            m.views[kind] = (R, epoch)
        if R is S:
            self.probe('returned_self')
            if want_new:
                self.violate('aliased_copy', sig_src, 'documented as a NEW frame with a NEW image but the source itself was returned')
        if R.format != want_fmt:
            self.violate('stale_view', {'op': kind, 'cause': 'wrong_format'}, f'format {R.format}, expected {want_fmt}')
        if R.is_rw != want_rw:
            self.violate('wrong_writability', {'op': kind, 'src_writable': s_rw, 'want_rw': want_rw},
                         f'result is_rw={R.is_rw}, documented {want_rw} (source {s_fmt} writable={s_rw})')
        if R is not S:
            mr = self.fm.get(id(R))
            inherit = m.jpg_given if kind in ('copy', 'pickle', 'newdata', 'relabel') else None
            if R.has_raw:
                px = R.image
                exp = convert(truth, s_fmt, want_fmt) if kind in VIEW_OPS else truth    # a relabel keeps the pixels
                if not same(px, exp):
                    cause = ('cached_conversion_of_writable_source' if s_rw else 'cached_conversion_of_readonly_source') \
                        if cached else 'wrong_pixels'
                    self.violate('stale_view', {'op': kind, 'cause': cause},
                                 f'{kind} of a {"writable" if s_rw else "read-only"} {s_fmt} frame shows {px.tolist()} but the '
                                 f'source holds {truth.tolist()}, i.e. {exp.tolist()} in {want_fmt}'
                                 + ('; the frame object is one that was handed out before the source was edited' if cached else ''))
                if want_new and m.buf is not None and np.shares_memory(px, m.buf.arr):
                    self.violate('aliased_copy', sig_src, 'documented as a NEW image but it shares memory with the source image')
                if mr is None:
                    known = id(px) in self.recs
                    self.fm[id(R)] = FM(R, R.format, self.track(px), inherit)
                    if known:
                        self.probe('shared_image_frames')
            else:
                # not decoded: it can only be the source's jpg travelling along
                if inherit is None or not R.has_jpg or bytes(R.jpg) != inherit:
                    self.violate('stale_view', {'op': kind, 'cause': 'undecoded_result_without_source_jpg'},
                                 'result has no decoded image and does not carry the jpg of its source')
                    self.pool[-1] = (None, None)      # nothing further can be said about it: dead slot
                    self.observe(op, None)
                    return True
                if mr is None:
                    self.fm[id(R)] = FM(R, R.format, None, inherit)
        self.observe(op, R)
        return True

    def do_read(self, op):
        kind = op['op']
        i, S = self.slot_frame(op, 'src')
        if S is None:
            return False
        m = self.fm[id(S)]
        op['src'] = self.focus = i
        truth = self.truth(m)
        self.begin(op)
        if kind == 'image':
            ok, arr = self.call(op, lambda: S.image)
            if ok and not (isinstance(arr, np.ndarray) and same(arr, truth)):
                self.violate('stale_view', {'op': kind, 'cause': 'image_read'},
                             f'.image gives {arr.tolist() if isinstance(arr, np.ndarray) else arr!r}, frame holds {truth.tolist()}')
            self.observe(op, None, (arr.tobytes() if isinstance(arr, np.ndarray) else None,))
        else:
            self.n_jpg_reads += 1
            ok, jpg = self.call(op, lambda: S.jpg)
            if ok:
                if not isinstance(jpg, (bytes, bytearray)):
                    self.violate('jpg_mismatch', {'op': kind, 'given': m.jpg_given is not None}, f'.jpg gives {type(jpg).__name__}')
                    jpg = b''
                elif m.jpg_given is not None and S.has_jpg:
                    if bytes(jpg) != m.jpg_given:
                        self.violate('jpg_mismatch', {'op': kind, 'given': True}, '.jpg is not the jpg the frame was built from')
                elif not self.jpg_close(jpg, truth, m.fmt):
                    self.violate('jpg_mismatch', {'op': kind, 'given': False},
                                 f'.jpg decodes to {getattr(self.decode(jpg, m.fmt), "tolist", lambda: None)()}, frame holds {truth.tolist()}')
            self.observe(op, None, (bytes(jpg) if ok else None,))
        return True

    def do_write(self, op):
        i, F = self.slot_frame(op, 'target')
        if F is None:
            return False
        via = op.get('via', 'image')
        T = self.pool[i][1] if via == 'orig' else (F.image if F.has_raw else None)
        val = op.get('val')
        if T is None or not T.flags.writeable or not isinstance(val, list) or len(val) != 3:
            return False
        op['target'] = self.focus = i
        op['val'] = val = [int(c) % 256 for c in val]
        y, x = int(op.get('y', 0)) % T.shape[0], int(op.get('x', 0)) % T.shape[1]
        v = val[0] if T.ndim == 2 else val
        self.begin(op)
        T[y, x] = v
        self.n_writes += 1
        lay = layout(T)
        hit = 0
        for rec in self.recs.values():
            if rec.arr is T or np.shares_memory(rec.arr, T):
                if layout(rec.arr) == lay:
                    rec.expect[y, x] = v
                else:                       # overlapping but differently laid out: take numpy's word for the new content
                    rec.expect = rec.arr.copy()
                    self.probe('odd_alias_write')
                rec.epoch += 1
                hit += 1
        users = [m for m in self.fm.values() if m.buf is not None and m.buf.arr is T]
        if len(users) > 1:
            self.probe('write_through_shared_image')
        if any(m.views for m in users):
            self.probe('write_after_view')
        if via == 'orig':
            self.probe('write_via_orig')
        self.digest.add(json.dumps(op, sort_keys=True), hit)
        return True

    # -- invariants after every step -----------------------------------------------------------------------------------

    def sync(self, kind):
        for m in list(self.fm.values()):
            F = m.frame
            if F.format != m.fmt:
                self.violate('stale_view', {'op': kind, 'cause': 'format_changed'}, f'a frame changed format {m.fmt} -> {F.format}')
                m.fmt = F.format
            arr = None
            if F.has_raw:
                arr = F.image
                if m.buf is None:            # decoded since the last step
                    self.probe('lazy_decode')
                    if not same(arr, self.truth(m)):
                        self.violate('stale_view', {'op': kind, 'cause': 'decode_mismatch'},
                                     f'decoded image {arr.tolist()} is not the decode of the frame\'s jpg')
                    if arr.flags.writeable:
                        self.violate('wrong_writability', {'op': 'decode', 'src_writable': False, 'want_rw': False},
                                     'image decoded from a jpg is writable while the jpg stays cached')
                    m.buf = self.track(arr)
                elif arr is not m.buf.arr:   # the frame swapped its image object: must at least show the same pixels
                    if not same(arr, m.buf.expect):
                        self.violate('pixels_changed', {'op': kind, 'how': 'image_replaced'}, 'a frame now holds a different image')
                    m.buf = self.track(arr)
            if F.has_jpg:
                if not m.had_jpg:
                    m.had_jpg = True
                    self.probe('jpg_cached')
                    if arr is not None and any(not r.ro and np.shares_memory(r.arr, arr) for r in self.recs.values()):
                        self.once(m, 'jpg_on_writable', {'op': kind}, f'frame {F!r} caches a jpg of memory that a writable array still reaches')
                jpg = F.jpg
                given = m.jpg_given is not None
                if given and bytes(jpg) != m.jpg_given:
                    self.once(m, 'jpg_mismatch', {'op': kind, 'given': True}, 'cached jpg is not the jpg the frame was built from')
                if arr is not None:
                    if arr.flags.writeable or not m.buf.ro:
                        self.once(m, 'jpg_on_writable', {'op': kind}, f'frame {F!r} has a cached jpg while its image is writable')
                    if given:
                        if not same(self.decode(jpg, m.fmt), m.buf.expect):
                            self.once(m, 'jpg_mismatch', {'op': kind, 'given': True}, 'cached jpg does not decode exactly to the image that came from it')
                    elif not self.jpg_close(jpg, m.buf.expect, m.fmt):
                        self.once(m, 'jpg_mismatch', {'op': kind, 'given': False},
                                     f'cached jpg decodes to {self.decode(jpg, m.fmt).tolist()}, image is {m.buf.expect.tolist()}')
        for rec in self.recs.values():
            wr = rec.arr.flags.writeable
            if rec.ro and wr and not rec.flagged:
                rec.flagged = True
                self.violate('ro_made_writable', {'op': kind}, 'an array that was read-only is writable now')
            elif not rec.ro and not wr:
                rec.ro = True
                self.probe('rw_array_became_ro')
            if not np.array_equal(rec.arr, rec.expect):
                self.violate('pixels_changed', {'op': kind, 'how': 'in_place'},
                             f'an array changed without a write through it: {rec.expect.tolist()} -> {rec.arr.tolist()}')
                rec.expect = rec.arr.copy()


# -- generation ---------------------------------------------------------------------------------------------------------

# value 0 of every draw is the simplest outcome: a plain read, slot 0, 1x1, fill 0
GEN_OPS = [('image', 2), ('jpg', 3), ('write_px', 7), ('ro_rgb', 3), ('ro_bgr', 3), ('rw', 2), ('ro', 2), ('rgb', 2), ('bgr', 2),
           ('rw_rgb', 2), ('rw_bgr', 2), ('copy', 2), ('pickle', 2), ('gray', 2), ('newdata', 1), ('relabel', 3),
           ('new_array', 1), ('from_jpg', 1), ('again', 4)]


def gen_create(ch, kind=None):
    kind = kind or ('new_array' if ch.draw('gen', 4) < 3 else 'from_jpg')
    op = {'op': kind, 'fmt': FORMATS[ch.weighted('gen', [3, 3, 1])], 'h': ch.rng_int('gen', 1, MAX_H),
          'w': ch.rng_int('gen', 1, MAX_W), 'fill': ch.draw('gen', 7)}
    if kind == 'new_array':
        op['writable'] = not ch.chance('gen', 1, 3)
    else:
        op['dims'] = ch.chance('gen', 1, 2)
    return op


def gen_op(ch, world):
    """Next op given the pool so far (the generator only looks at slot count, focus and which slots can be written)."""
    if not world.pool:
        return gen_create(ch)
    kind = GEN_OPS[ch.weighted('gen', [w for _, w in GEN_OPS])][0]
    if kind == 'again':      # ask an earlier question again: same view / read of the same source
        asked = [op for op in world.history if op['op'] in VIEW_OPS + READ_OPS + ('copy',)]
        if asked:
            return dict(asked[ch.draw('gen', len(asked))])
        kind = 'ro'
    if kind in CREATE_OPS:
        return gen_create(ch, kind)
    if kind == 'write_px':
        targets = world.writable_targets()
        if not targets:
            return {'op': 'rw', 'src': _pick_slot(ch, world)}
        at_focus = [t for t in targets if t[0] == world.focus]
        slot, via = at_focus[0] if at_focus and not ch.chance('gen', 1, 2) else targets[ch.draw('gen', len(targets))]
        if via == 'image' and world.pool[slot][1] is not None and ch.chance('gen', 1, 3):
            via = 'orig'
        return {'op': 'write_px', 'target': slot, 'via': via, 'y': ch.draw('gen', MAX_H), 'x': ch.draw('gen', MAX_W),
                'val': [ch.draw('gen', 256) for _ in range(3)]}
    op = {'op': kind, 'src': _pick_slot(ch, world)}
    if kind == 'relabel':
        fmt = world.fm[id(world.pool[op['src']][0])].fmt if world.pool[op['src']][0] is not None else 'BGR'
        op['fmt'] = 'GRAY' if fmt == 'GRAY' else ('BGR', 'RGB')[ch.draw('gen', 2)]
    return op


def _pick_slot(ch, world):
    """Half of the time stay on the slot used last: repeated views of one source around writes are the point."""
    if not ch.chance('gen', 1, 2):
        return min(world.focus, len(world.pool) - 1)
    return ch.draw('gen', len(world.pool))


def run_history(history=None, ch=None, max_len=8):
    """Execute a given history, or generate one op at a time from ch; returns the World."""
    world = World()
    if history is not None:
        for op in history:
            if isinstance(op, dict):
                world.apply(op)
    else:
        n = max(ch.rng_int('gen', 1, max_len), ch.rng_int('gen', 1, max_len))     # longer histories say more
        for _ in range(n):
            world.apply(gen_op(ch, world))
    return world


# -- exhaustive enumeration ----------------------------------------------------------------------------------------------

EXH_STARTS = [
    {'op': 'new_array', 'fmt': 'BGR', 'h': 1, 'w': 2, 'writable': True, 'fill': 1},
    {'op': 'new_array', 'fmt': 'RGB', 'h': 2, 'w': 1, 'writable': False, 'fill': 2},
    {'op': 'from_jpg', 'fmt': 'BGR', 'h': 2, 'w': 2, 'fill': 3, 'dims': True},
    {'op': 'new_array', 'fmt': 'GRAY', 'h': 2, 'w': 2, 'writable': True, 'fill': 4},
]
# every view op, copy, pickle, both reads and a pixel write, each on the start frame (slot 0) and on the newest slot (-1);
# sharing the image with a second frame only from the start frame
EXH_ALPHABET = [(k, s) for k in VIEW_OPS + ('copy', 'pickle', 'image', 'jpg', 'write_px', 'relabel') for s in (0, -1)] + \
    [('newdata', 0)]


def exh_count(depth):
    return len(EXH_STARTS) * len(EXH_ALPHABET) ** depth


def exh_history(idx, depth):
    """idx-th sequence of exactly `depth` symbols (the oracle runs after every step, so all shorter ones are prefixes)."""
    a = len(EXH_ALPHABET)
    start, rest = divmod(idx, a ** depth)
    hist = [dict(EXH_STARTS[start])]
    for k in range(depth):
        rest, d = divmod(rest, a)
        kind, sel = EXH_ALPHABET[d]
        if kind == 'write_px':
            hist.append({'op': kind, 'target': sel, 'via': 'image', 'y': 0, 'x': 0, 'val': [200 + k, 100 + k, 50 + k]})
        elif kind == 'relabel':
            hist.append({'op': kind, 'src': sel, 'fmt': 'swap'})
        else:
            hist.append({'op': kind, 'src': sel})
    return hist


# -- shrinking helpers ---------------------------------------------------------------------------------------------------

def drop_op(hist, i):
    """History without op i. Slots are renumbered; users of the dropped op's slot move to its source if it was derived
    from one, otherwise they are dropped as well (transitively)."""
    out = []
    remap = {}
    n_old = n_new = 0
    for k, op in enumerate(hist):
        op = dict(op)
        key = 'target' if op.get('op') == 'write_px' else 'src' if 'src' in op else None
        dead = k == i
        new = None
        if key is not None:
            new = remap.get(op[key])
            if new is None:
                dead = True
            else:
                op[key] = new
        if op.get('op') in SLOT_OPS:
            if dead:
                remap[n_old] = new if k == i else None
            else:
                remap[n_old] = n_new
                n_new += 1
            n_old += 1
        if not dead:
            out.append(op)
    return out
