#!/bin/sh
# usage: tools_confirm_seeded.sh <worktree> <delivery dir> <test files ...>
# Own confirmation of a sub-agent's seeded change in its scratch worktree: demo passes without / fails with the
# patch, the named existing test files pass with it (one pytest process per file). Leaves the worktree at HEAD.
wt="$1"; d="$2"; shift 2
cd "$wt" || exit 2
git checkout -q -- . 
echo "== demo without patch"; PYTHONPATH="$wt" DO_NOT_TRACK=true timeout 120 /venv/bin/python "$d/demo.py" >/dev/null 2>&1; echo "exit=$?"
git apply "$d/patch.diff" || { echo "PATCH DOES NOT APPLY"; exit 2; }
git diff --stat | tail -3
echo "== demo with patch"; PYTHONPATH="$wt" DO_NOT_TRACK=true timeout 120 /venv/bin/python "$d/demo.py" >/dev/null 2>&1; echo "exit=$?"
for t in "$@"; do
  echo "== $t with patch"; DO_NOT_TRACK=true timeout 900 /venv/bin/python -m pytest -q -p no:cacheprovider "$t" 2>&1 | tail -2
done
git checkout -q -- .
find . -name __pycache__ -type d -prune -exec rm -rf {} + 2>/dev/null
