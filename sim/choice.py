"""Choice source: the single origin of every nondeterministic decision of a simulated run.

Generate mode: one PRNG seeded from (VERIF_SEED, property, run index); every draw is recorded per *stream*.
Replay mode: the recorded values of each stream are returned in order (clamped to the bound; beyond the end: 0).

Streams keep unrelated decisions apart ('gen' scenario generation, 'fault' fault plan, 'sched' scheduling choices,
'lat' latencies, ...), so that the shrinker can delete or zero entries of one stream without shifting the others.
Every draw is designed so that 0 is the simplest outcome (no fault, minimum latency, first runnable task).

Nothing here reads a clock, and logging never draws.
"""

import hashlib
import random


class ChoiceSource:
    def __init__(self, seed=None, replay=None):
        self.seed = seed
        self.replaying = replay is not None
        self._replay = {k: list(v) for k, v in (replay or {}).items()}
        self._pos = {}
        self._rng = random.Random(seed if seed is not None else 0)
        self.record = {}   # stream -> [value, ...]
        self.ndraws = 0

    # -- core ---------------------------------------------------------------------------------------------------------

    def draw(self, stream: str, bound: int) -> int:
        """Integer in [0, bound). bound <= 1 is not a choice and is not recorded."""
        if bound <= 1:
            return 0
        if self.replaying:
            vals = self._replay.get(stream)
            i = self._pos.get(stream, 0)
            self._pos[stream] = i + 1
            v = vals[i] if vals is not None and i < len(vals) else 0
            if v >= bound:
                v = bound - 1
            elif v < 0:
                v = 0
        else:
            v = self._rng.randrange(bound)
        rec = self.record.get(stream)
        if rec is None:
            rec = self.record[stream] = []
        rec.append(v)
        self.ndraws += 1
        return v

    # -- helpers (all built on draw so that they replay and shrink) ----------------------------------------------------

    def chance(self, stream: str, num: int, den: int) -> bool:
        """True with probability num/den; value 0 (the shrink target) means False."""
        if num <= 0:
            return False
        if num >= den:
            return True
        return self.draw(stream, den) >= den - num

    def pick(self, stream: str, seq):
        return seq[self.draw(stream, len(seq))]

    def rng_int(self, stream: str, lo: int, hi: int) -> int:
        """Integer in [lo, hi]; lo is the simplest."""
        if hi <= lo:
            return lo
        return lo + self.draw(stream, hi - lo + 1)

    def weighted(self, stream: str, weights) -> int:
        """Index drawn with the given integer weights; index 0 is the simplest (value 0 maps to index 0)."""
        tot = sum(weights)
        v = self.draw(stream, tot)
        acc = 0
        for i, w in enumerate(weights):
            acc += w
            if v < acc:
                return i
        return len(weights) - 1

    def subset(self, stream: str, seq, num: int, den: int):
        return [x for x in seq if self.chance(stream, num, den)]

    def export(self):
        return {k: list(v) for k, v in self.record.items()}


def derive_seed(*parts) -> int:
    """Stable 63-bit seed from arbitrary parts (no use of hash(), which is salted per interpreter)."""
    h = hashlib.sha256('/'.join(str(p) for p in parts).encode()).digest()
    return int.from_bytes(h[:8], 'big') >> 1


class Digest:
    """Run digest: a hash over the event log (every scheduling decision and every message put on the wire)."""

    def __init__(self):
        self._h = hashlib.blake2b(digest_size=12)
        self.n = 0

    def add(self, *items):
        self._h.update(repr(items).encode())
        self.n += 1

    def hex(self):
        return self._h.hexdigest()
