"""Simulated file system (DESIGN.md section 2.7): an in-memory POSIX-like tree used under `rolllog.py`.

What is modelled
    * directories and regular files; a file is an *inode* (byte content, link count) reachable through a path
    * `unlink` of an open file keeps the inode readable / writable through existing handles
    * `rename` is atomic and replaces the destination
    * `open(path, 'rb'|'r'|'wb'|'w'|'ab'|'a')`; 'w*' truncates an existing file (same inode) - which the file system
      reports as an *overwrite* event, together with any write that lands below the current size of an inode
      (*content_changed*), because the properties checked on top of it say that neither ever happens to a log file
    * file objects emulate CPython's buffering: `write()` collects bytes in a per-handle buffer (default 8 KiB) which
      reaches the inode on `flush()`, on `close()` or when it overflows; a write at least as large as the buffer
      bypasses it (after flushing what was buffered), like `io.BufferedWriter`. So "what another process can see" and
      "what survives a crash" are both defined: completed FS calls persist, buffered bytes die with the process.
      Reads are served from the inode at the handle's offset (no read-ahead: log files are append-only, so a read
      buffer could not be told apart from the inode by any caller)
    * every FS call is numbered, globally and per calling *process* (`fs.proc`, set by the world before it lets an
      actor run) and passes through the hook `fs.on_op(kind, path, proc, n)` *before* it takes effect. The hook may
      record, may be a yield point of a scheduler, and may inject a crash by calling `fs.crash(proc)` and raising
      `SimCrash`: every handle of that process is dropped with its buffered bytes, and every later FS call made on
      behalf of that process while the real code unwinds (`with open(...)` calls close()) has no effect
    * `SimOS(fs)` offers the subset of `os` that rolllog.py uses; `rolllog.os = SimOS(fs)`, `rolllog.open = fs.open`

Not modelled: permissions, symlinks, hard links, sparse files, power loss (un-synced data after a completed rename).
"""

import posixpath

CWD = '/simcwd'
BUFSIZE = 8192


class SimCrash(BaseException):
    """Unwinds the code of a simulated process that was stopped at a file-system call."""


class FSHarnessError(Exception):
    """The code under test used the file system in a way this model does not cover (harness error, never a violation)."""


class Inode:
    __slots__ = ('ino', 'data', 'nlink', 'created_by', 'path0')

    def __init__(self, ino, created_by, path0):
        self.ino = ino
        self.data = bytearray()
        self.nlink = 1
        self.created_by = created_by
        self.path0 = path0       # path it was created under (for reports)


class StatResult:
    __slots__ = ('st_size', 'st_ino', 'st_isdir')

    def __init__(self, size, ino, isdir):
        self.st_size = size
        self.st_ino = ino
        self.st_isdir = isdir


class SimFile:
    """A file object as returned by the builtin open(): binary or text, buffered writes."""

    def __init__(self, fs, inode, path, mode, proc):
        self.fs = fs
        self.inode = inode
        self.path = path
        self.name = path
        self.mode = mode
        self.proc = proc
        self.text = 'b' not in mode
        self.readable_ = mode[0] == 'r'
        self.writable_ = mode[0] in 'wa'
        self.append = mode[0] == 'a'
        self.pos = len(inode.data) if self.append else 0
        self.wbuf = bytearray()
        self.closed = False
        self.dead = False

    # -- helpers --------------------------------------------------------------------------------------------------------

    def _check(self):
        if self.dead:
            raise SimCrash
        if self.closed:
            raise ValueError('I/O operation on closed file.')

    def _raw_write(self, data):
        """One write(2): the bytes reach the inode at the handle's offset (at the end for append mode)."""
        fs = self.fs
        fs._op('write', self.path, self.proc)
        if self.dead:
            raise SimCrash
        ino = self.inode
        if fs.short_write is not None and len(data) > 1:
            k = fs.short_write(self, len(data))
            if k and 0 < k < len(data):
                self._put(bytes(data[:k]))
                fs._op('write', self.path, self.proc)      # the remainder is a second call: a reader can get in between
                if self.dead:
                    raise SimCrash
                self._put(bytes(data[k:]))
                return
        self._put(bytes(data))

    def _put(self, data):
        ino = self.inode
        fs = self.fs
        if self.append:
            self.pos = len(ino.data)
        pos = self.pos
        if pos < len(ino.data):
            fs._event('content_changed', self.path, {'ino': ino.ino, 'offset': pos, 'size': len(ino.data), 'proc': self.proc})
            ino.data[pos:pos + len(data)] = data
        else:
            if pos > len(ino.data):
                ino.data.extend(b'\0' * (pos - len(ino.data)))
            ino.data.extend(data)
        if fs.write_log is not None:
            fs.write_log.append((ino.ino, pos, len(data)))
        if fs.on_write is not None:
            fs.on_write(ino.ino, pos, data, self.proc)
        self.pos = pos + len(data)

    # -- writing --------------------------------------------------------------------------------------------------------

    def write(self, data):
        self._check()
        if not self.writable_:
            raise OSError('not writable')
        if self.text:
            if not isinstance(data, str):
                raise TypeError('write() argument must be str')
            n = len(data)
            data = data.encode()
        else:
            if not isinstance(data, (bytes, bytearray)):
                data = memoryview(data).tobytes()      # any buffer; a real file counts bytes, not items
            n = len(data)
        bufsize = self.fs.bufsize
        if len(self.wbuf) + len(data) <= bufsize:
            self.wbuf += data
            return n
        if self.wbuf:
            buf, self.wbuf = self.wbuf, bytearray()
            self._raw_write(buf)
        if len(data) >= bufsize:
            self._raw_write(data)
        else:
            self.wbuf += data
        return n

    def flush(self):
        self._check()
        if self.wbuf:
            buf, self.wbuf = self.wbuf, bytearray()
            self._raw_write(buf)

    # -- reading --------------------------------------------------------------------------------------------------------

    def _read_raw(self, line):
        self._check()
        if not self.readable_:
            raise OSError('not readable')
        fs = self.fs
        fs._op('read', self.path, self.proc)
        if self.dead:
            raise SimCrash
        data = self.inode.data
        pos = self.pos
        if line:
            i = data.find(b'\n', pos)
            end = len(data) if i < 0 else i + 1
        else:
            end = len(data)
        if end < pos:
            end = pos
        out = bytes(data[pos:end])
        if fs.read_log is not None:
            fs.read_log.append((self.inode.ino, pos, len(out)))
        self.pos = end
        return out

    def read(self, n=-1):
        if n is not None and n >= 0:
            # sized read: RollLog only uses it to probe backwards for a record boundary in seek(); a file-system operation
            # like any other, but not a delivery, so it does not enter the read log
            self._check()
            if not self.readable_:
                raise OSError('not readable')
            self.fs._op('read', self.path, self.proc)
            if self.dead:
                raise SimCrash
            out = bytes(self.inode.data[self.pos:self.pos + n])
            self.pos += len(out)
            return out.decode() if self.text else out
        out = self._read_raw(False)
        return out.decode() if self.text else out

    def readline(self, n=-1):
        out = self._read_raw(True)
        return out.decode() if self.text else out

    def seek(self, off, whence=0):
        self._check()
        if self.wbuf:
            self.flush()
        self.fs._op('seek', self.path, self.proc)
        if whence == 0:
            self.pos = off
        elif whence == 1:
            log = self.fs.read_log
            if off < 0 and log and log[-1][0] == self.inode.ino and log[-1][1] + log[-1][2] == self.pos:
                # the reader gives back the tail of what it just read (an incomplete last record): un-read it
                ino, p0, n = log[-1]
                if n + off > 0:
                    log[-1] = (ino, p0, n + off)
                else:
                    log.pop()
            self.pos += off
        elif whence == 2:
            self.pos = len(self.inode.data) + off
        else:
            raise ValueError('whence')
        if self.pos < 0:
            raise OSError(22, 'Invalid argument')
        return self.pos

    def tell(self):
        self._check()
        return self.pos + len(self.wbuf)

    # -- life cycle -------------------------------------------------------------------------------------------------------

    def close(self):
        if self.dead or self.closed:
            return
        try:
            if self.wbuf:
                buf, self.wbuf = self.wbuf, bytearray()
                self._raw_write(buf)
            self.fs._op('close', self.path, self.proc)
        finally:
            self.closed = True
            self.fs.handles.pop(id(self), None)

    def __enter__(self):
        self._check()
        return self

    def __exit__(self, *exc):
        self.close()
        return False

    def readable(self):
        return self.readable_

    def writable(self):
        return self.writable_

    def fileno(self):
        raise FSHarnessError('fileno() is not modelled')

    def __repr__(self):
        return f'<SimFile {self.path} {self.mode} ino={self.inode.ino} pos={self.pos}{" closed" if self.closed else ""}>'


class SimFS:
    def __init__(self, bufsize=BUFSIZE):
        self.bufsize = bufsize
        self.dirs = {'/': True, CWD: True}
        self.files = {}              # abs path -> Inode (insertion order = creation order: listdir is deterministic)
        self.handles = {}            # id(handle) -> handle (open ones)
        self.next_ino = 1
        self.proc = 'main'           # the calling simulated process (set by the world)
        self.dead = set()            # crashed processes: their FS calls have no effect any more
        self.nops = 0
        self.proc_ops = {}
        self.on_op = None            # hook(kind, path, proc, n_of_proc)
        self.on_event = None         # hook(kind, path, info): 'create', 'overwrite', 'content_changed', 'unlink', 'rename'
        self.read_log = None         # list or None: (ino, offset, nbytes) per read call
        self.write_log = None        # list or None: (ino, offset, nbytes) per write call that reached an inode
        self.on_write = None         # hook(ino, offset, data, proc) when bytes reach an inode
        self.short_write = None      # hook(handle, nbytes) -> split point or None (thorough-tier sub-scenario)
        self.lost_buffered = 0       # bytes that died in write buffers of crashed processes (informational)

    # -- plumbing -------------------------------------------------------------------------------------------------------

    def _op(self, kind, path, proc=None):
        if proc is None:
            proc = self.proc
        if proc in self.dead:
            raise SimCrash
        self.nops += 1
        n = self.proc_ops[proc] = self.proc_ops.get(proc, 0) + 1
        hook = self.on_op
        if hook is not None:
            hook(kind, path, proc, n)
        if proc in self.dead:
            raise SimCrash

    def _event(self, kind, path, info):
        hook = self.on_event
        if hook is not None:
            hook(kind, path, info)

    def crash(self, proc):
        """Process `proc` dies now: its handles vanish together with whatever they had buffered."""
        self.dead.add(proc)
        for h in list(self.handles.values()):
            if h.proc == proc:
                self.lost_buffered += len(h.wbuf)
                h.wbuf = bytearray()
                h.dead = True
                self.handles.pop(id(h), None)

    @staticmethod
    def norm(path):
        if not isinstance(path, str):
            raise FSHarnessError(f'path of type {type(path).__name__} is not modelled')
        if not path.startswith('/'):
            path = posixpath.join(CWD, path)
        return posixpath.normpath(path)

    # -- calls ----------------------------------------------------------------------------------------------------------

    def open(self, path, mode='r', buffering=-1, encoding=None, errors=None, newline=None):
        p = self.norm(path)
        if mode not in ('r', 'rb', 'w', 'wb', 'a', 'ab', 'rt', 'wt'):
            raise FSHarnessError(f'open mode {mode!r} is not modelled')
        mode = mode.replace('t', '')
        self._op('open', p)
        proc = self.proc
        if p in self.dirs:
            raise IsADirectoryError(21, 'Is a directory', path)
        ino = self.files.get(p)
        if mode[0] == 'r':
            if ino is None:
                raise FileNotFoundError(2, 'No such file or directory', path)
        else:
            if ino is None:
                parent = posixpath.dirname(p)
                if parent not in self.dirs:
                    raise FileNotFoundError(2, 'No such file or directory', path)
                ino = self.files[p] = Inode(self.next_ino, proc, p)
                self.next_ino += 1
                self._event('create', p, {'ino': ino.ino, 'proc': proc, 'mode': mode})
            elif mode[0] == 'w':
                self._event('overwrite', p, {'ino': ino.ino, 'proc': proc, 'size': len(ino.data), 'mode': mode})
                if ino.data:
                    self._event('content_changed', p, {'ino': ino.ino, 'offset': 0, 'size': len(ino.data), 'proc': proc})
                del ino.data[:]
        h = SimFile(self, ino, p, mode, proc)
        self.handles[id(h)] = h
        return h

    def exists(self, path):
        p = self.norm(path)
        self._op('stat', p)
        return p in self.files or p in self.dirs

    def isdir(self, path):
        p = self.norm(path)
        self._op('stat', p)
        return p in self.dirs

    def isfile(self, path):
        p = self.norm(path)
        self._op('stat', p)
        return p in self.files

    def stat(self, path):
        p = self.norm(path)
        self._op('stat', p)
        ino = self.files.get(p)
        if ino is not None:
            return StatResult(len(ino.data), ino.ino, False)
        if p in self.dirs:
            return StatResult(0, 0, True)
        raise FileNotFoundError(2, 'No such file or directory', path)

    def listdir(self, path='.'):
        p = self.norm(path)
        self._op('listdir', p)
        if p not in self.dirs:
            if p in self.files:
                raise NotADirectoryError(20, 'Not a directory', path)
            raise FileNotFoundError(2, 'No such file or directory', path)
        pre = p if p.endswith('/') else p + '/'
        n = len(pre)
        out = [q[n:] for q in self.files if q.startswith(pre) and '/' not in q[n:]]
        out += [q[n:] for q in self.dirs if q.startswith(pre) and q != p and '/' not in q[n:]]
        return out

    def makedirs(self, path, mode=0o777, exist_ok=False):
        p = self.norm(path)
        self._op('mkdir', p)
        if p in self.files:
            raise FileExistsError(17, 'File exists', path)
        if p in self.dirs:
            if not exist_ok:
                raise FileExistsError(17, 'File exists', path)
            return
        parts = p.strip('/').split('/')
        cur = ''
        for part in parts:
            cur += '/' + part
            if cur in self.files:
                raise NotADirectoryError(20, 'Not a directory', path)
            self.dirs.setdefault(cur, True)

    def unlink(self, path):
        p = self.norm(path)
        self._op('unlink', p)
        ino = self.files.get(p)
        if ino is None:
            if p in self.dirs:
                raise IsADirectoryError(21, 'Is a directory', path)
            raise FileNotFoundError(2, 'No such file or directory', path)
        del self.files[p]
        ino.nlink -= 1
        self._event('unlink', p, {'ino': ino.ino, 'proc': self.proc, 'size': len(ino.data)})

    def rename(self, src, dst):
        s, d = self.norm(src), self.norm(dst)
        self._op('rename', s)
        ino = self.files.get(s)
        if ino is None:
            raise FileNotFoundError(2, 'No such file or directory', src)
        if d in self.dirs:
            raise IsADirectoryError(21, 'Is a directory', dst)
        if posixpath.dirname(d) not in self.dirs:
            raise FileNotFoundError(2, 'No such file or directory', dst)
        old = self.files.get(d)
        del self.files[s]
        if old is not None:
            old.nlink -= 1
            self.files[d] = ino       # keeps the slot (and so the listdir position) of the replaced name
        else:
            self.files[d] = ino
        self._event('rename', d, {'ino': ino.ino, 'proc': self.proc, 'src': s, 'replaced': old.ino if old is not None else None})

    # -- harness-side inspection (not numbered, no hooks) ---------------------------------------------------------------

    def peek(self, path):
        ino = self.files.get(self.norm(path))
        return None if ino is None else bytes(ino.data)

    def size_of(self, path):
        ino = self.files.get(self.norm(path))
        return None if ino is None else len(ino.data)

    def has_writer(self, ino, proc=None):
        for h in self.handles.values():
            if h.writable_ and h.inode.ino == ino and (proc is None or h.proc == proc):
                return True
        return False

    def names_in(self, path):
        p = self.norm(path)
        pre = p if p.endswith('/') else p + '/'
        n = len(pre)
        return [q[n:] for q in self.files if q.startswith(pre) and '/' not in q[n:]]


class _SimOSPath:
    def __init__(self, fs):
        self._fs = fs
        self.join = posixpath.join
        self.basename = posixpath.basename
        self.dirname = posixpath.dirname
        self.split = posixpath.split
        self.splitext = posixpath.splitext
        self.normpath = posixpath.normpath
        self.isabs = posixpath.isabs
        self.sep = '/'

    def abspath(self, path):
        return self._fs.norm(path)

    def exists(self, path):
        return self._fs.exists(path)

    def isdir(self, path):
        return self._fs.isdir(path)

    def isfile(self, path):
        return self._fs.isfile(path)

    def getsize(self, path):
        return self._fs.stat(path).st_size


class SimOS:
    """The subset of the `os` module that rolllog.py reaches, redirected into a SimFS. Anything else raises
    AttributeError, which surfaces as a harness error rather than silently touching the real file system."""

    sep = '/'
    linesep = '\n'
    name = 'posix'

    def __init__(self, fs):
        self._fs = fs
        self.path = _SimOSPath(fs)
        self.makedirs = fs.makedirs
        self.listdir = fs.listdir
        self.stat = fs.stat
        self.unlink = fs.unlink
        self.remove = fs.unlink
        self.rename = fs.rename
        self.replace = fs.rename

    def getcwd(self):
        return CWD
