"""Virtual clocks: objects that stand in for `time`, `time_ns`, `sleep`, `datetime` in the modules under test.

Every reader sees `scheduler.now + skew(calling process)`; `sleep` is a scheduler yield with a deadline.
"""

import datetime as _dt


class SimClock:
    def __init__(self, sched):
        self.sched = sched

    # the wall clock of the calling process
    def now_ns(self):
        s = self.sched
        cur = s.current
        if cur is not None and not cur.is_main and cur.proc is not None:
            p = cur.proc
            if p.frozen_clock is not None:
                return p.frozen_clock
            return s.now + p.skew_ns
        return s.now

    def time_ns(self):
        return self.now_ns()

    def time(self):
        return self.now_ns() / 1e9

    def monotonic(self):
        return self.sched.now / 1e9

    def monotonic_ns(self):
        return self.sched.now

    perf_counter = monotonic
    perf_counter_ns = monotonic_ns

    def sleep(self, secs):
        s = self.sched
        cur = s.current
        if cur is None or cur.is_main:
            return
        s.block(None, s.now + max(0, int(secs * 1e9)), 'sleep')


class SimTimeModule:
    """Stands in for the `time` *module* (used as `time.time()`); deliberately not callable, exactly like the module."""

    def __init__(self, clock):
        self._c = clock
        self.time = clock.time
        self.time_ns = clock.time_ns
        self.sleep = clock.sleep
        self.monotonic = clock.monotonic
        self.monotonic_ns = clock.monotonic_ns
        self.perf_counter = clock.perf_counter
        import time as _t
        self.gmtime = _t.gmtime
        self.localtime = _t.localtime
        self.strftime = _t.strftime
        self.struct_time = _t.struct_time


def make_datetime_class(clock):
    """A datetime subclass whose now()/utcnow()/today() read the virtual clock."""

    class SimDateTime(_dt.datetime):
        @classmethod
        def now(cls, tz=None):
            ts = clock.now_ns() / 1e9
            return cls.fromtimestamp(ts, tz)

        @classmethod
        def utcnow(cls):
            return cls.fromtimestamp(clock.now_ns() / 1e9, _dt.timezone.utc).replace(tzinfo=None)

        @classmethod
        def today(cls):
            return cls.now()

    SimDateTime.__name__ = 'datetime'
    SimDateTime.__qualname__ = 'datetime'
    return SimDateTime
