"""Seam table (DESIGN.md section 2.2): every source of nondeterminism the code under test reaches is a module-level
name that it looks up at call time; the harness rebinds those names and restores them afterwards.

A missing seam is a *harness error* (exit 2), never a violation.
"""

import importlib
import logging
import os
import socket as _socket
import sys
import threading as _threading

from .core import HarnessError

os.environ.setdefault('DO_NOT_TRACK', 'true')
os.environ.setdefault('LOG_PATH', 'false')

_MISSING = object()


class SeamMissing(HarnessError):
    pass


def repo_path():
    return os.environ.get('VERIF_REPO', '/repo')


def ensure_repo_on_path():
    rp = repo_path()
    if rp not in sys.path:
        sys.path.insert(0, rp)


_mods = {}


def mod(name):
    m = _mods.get(name)
    if m is None:
        ensure_repo_on_path()
        m = _mods[name] = importlib.import_module(name)
        f = getattr(m, '__file__', '') or ''
        if name.startswith('openfilter') and not os.path.abspath(f).startswith(os.path.abspath(repo_path())):
            raise HarnessError(f'{name} imported from {f}, not from {repo_path()}')
    return m


class Patcher:
    """Records and restores rebindings."""

    def __init__(self):
        self._saved = []

    def bind(self, obj, attr, value, must_exist=True):
        old = getattr(obj, attr, _MISSING) if not isinstance(obj, dict) else obj.get(attr, _MISSING)
        if old is _MISSING and must_exist:
            raise SeamMissing(f'seam {getattr(obj, "__name__", obj)}.{attr} does not exist')
        self._saved.append((obj, attr, old))
        if isinstance(obj, dict):
            obj[attr] = value
        else:
            setattr(obj, attr, value)

    def restore(self):
        for obj, attr, old in reversed(self._saved):
            if isinstance(obj, dict):
                if old is _MISSING:
                    obj.pop(attr, None)
                else:
                    obj[attr] = old
            elif old is _MISSING:
                try:
                    delattr(obj, attr)
                except AttributeError:
                    pass
            else:
                setattr(obj, attr, old)
        self._saved.clear()


# -- tripwires: stray real threads and real sockets during a run --------------------------------------------------------

_trip = {'armed': False, 'hits': []}
_orig_thread_start = _threading.Thread.start
_orig_socket_init = _socket.socket.__init__


def _thread_start(self, *a, **kw):
    if _trip['armed'] and not getattr(self, '_sim_ok', False):
        import traceback
        _trip['hits'].append('real thread started: ' + ''.join(traceback.format_stack(limit=6)))
    return _orig_thread_start(self, *a, **kw)


def _socket_init(self, *a, **kw):
    if _trip['armed']:
        import traceback
        _trip['hits'].append('real socket created: ' + ''.join(traceback.format_stack(limit=6)))
    return _orig_socket_init(self, *a, **kw)


def install_tripwires():
    _threading.Thread.start = _thread_start
    try:
        _socket.socket.__init__ = _socket_init
    except TypeError:
        pass


def arm_tripwires(on=True):
    _trip['armed'] = on
    if on:
        _trip['hits'].clear()


def tripwire_hits():
    return list(_trip['hits'])


# -- log capture --------------------------------------------------------------------------------------------------------

class CaptureHandler(logging.Handler):
    """Root handler that hands every record to the current world (attributed to the running simulated process)."""

    def __init__(self):
        super().__init__(level=0)
        self.sink = None

    def emit(self, record):
        sink = self.sink
        if sink is not None:
            try:
                msg = record.getMessage()
            except Exception as exc:   # a broken format string in the code under test is not our problem
                msg = f'{record.msg!r} % {record.args!r} ({exc})'
            if record.exc_info and record.exc_info[0] is not None:
                # what a real handler would print: the formatted traceback follows the message (logger.exception)
                try:
                    import traceback
                    msg += '\n' + ''.join(traceback.format_exception_only(record.exc_info[0], record.exc_info[1])).rstrip()
                except Exception:
                    pass
            sink(record.levelno, record.name, msg, record)

    def handle(self, record):   # no lock, no filters: single baton holder
        self.emit(record)
        return True


_capture = CaptureHandler()


def install_log_capture(level=logging.INFO):
    root = logging.getLogger()
    for h in list(root.handlers):
        root.removeHandler(h)
    root.addHandler(_capture)
    root.setLevel(level)
    return _capture


def capture_handler():
    return _capture
