"""Deterministic scheduler: real Python threads that run only while they hold the baton.

Every simulated *process* (one filter incarnation) and every simulated *thread inside a process* is a real thread.
Exactly one of them executes at any instant; which one is decided by a seeded draw from the choice source at every
yield point. Time is virtual (integer nanoseconds): when nobody is runnable the clock jumps to the next event.

The scheduling code runs in whichever thread currently holds the baton (no separate scheduler thread): a yielding
task picks its successor itself and, if that is another task, releases the successor's private lock and parks on its
own. This halves the number of OS-level thread switches.

Contract used by everything else:
    sched.spawn(proc, name, fn)                 new task (parked until first chosen)
    sched.block(pred=None, deadline=None, label)   yield point; returns when chosen again (pred true or deadline reached)
    sched.at(time_ns, fn) / sched.after(delay_ns, fn)   heap event (runs in harness context, must not block)
    sched.kill(proc)                            SIGKILL: tasks of proc unwind with SimKilled, primitives become inert
    sched.run(...)                              called by the controlling (main) thread
"""

import _thread
import heapq
import sys
import threading

from .choice import Digest


class SimKilled(BaseException):
    """Raised inside a task whose simulated process was killed; unwinds the real code without any effect."""


class SimAbort(BaseException):
    """Raised inside every remaining task when the run is torn down."""


class HarnessError(Exception):
    """The machinery itself misbehaved (never a property violation)."""


NEW, READY, BLOCKED, DONE = 'new', 'ready', 'blocked', 'done'

EPOCH_NS = 1_780_000_000 * 1_000_000_000   # virtual wall-clock origin (mid 2026), far from 0 so that timestamps look real


class Proc:
    """A simulated OS process (one incarnation of a filter, a log writer, ...)."""

    __slots__ = ('name', 'inc', 'alive', 'tasks', 'locals', 'skew_ns', 'stall_until', 'exited', 'data', 'frozen_clock')

    def __init__(self, name, inc=0):
        self.name = name
        self.inc = inc
        self.alive = True
        self.tasks = []
        self.locals = {}
        self.skew_ns = 0
        self.stall_until = 0
        self.exited = False      # main task returned
        self.data = {}
        self.frozen_clock = None

    @property
    def key(self):
        return f'{self.name}#{self.inc}'

    def __repr__(self):
        return f'<Proc {self.key}{"" if self.alive else " dead"}>'


class Task:
    __slots__ = ('tid', 'name', 'proc', 'fn', 'lock', 'state', 'pred', 'deadline', 'label', 'thread', 'exc', 'result',
                 'is_main', 'on_done')

    def __init__(self, tid, name, proc, fn):
        self.tid = tid
        self.name = name
        self.proc = proc
        self.fn = fn
        self.lock = _thread.allocate_lock()
        self.lock.acquire()
        self.state = NEW
        self.pred = None
        self.deadline = None
        self.label = ''
        self.thread = None
        self.exc = None
        self.result = None
        self.is_main = False
        self.on_done = None

    def __repr__(self):
        return f'<Task {self.name} {self.state}>'


class Scheduler:
    def __init__(self, choice, *, max_steps=250_000, log_steps=True):
        self.choice = choice
        self.now = EPOCH_NS
        self.step = 0
        self.max_steps = max_steps
        self.t_end = None
        self.heap = []
        self._seq = 0
        self.tasks = []
        self.procs = []
        self.digest = Digest()
        self.trace = []            # last N scheduling decisions (ring) for reports
        self.trace_cap = 400
        self.log_steps = log_steps
        self.current = None
        self.controller = Task(-1, 'controller', None, None)
        self.controller.is_main = True
        self.controller.state = READY
        self.stop_reason = None
        self.stop_pred = None      # callable -> reason|None, evaluated when time advances
        self.aborting = False
        self.proc_locals = []      # [(obj, attr, factory)] process-local globals swapped at context switches
        self._ctl_locals = {}
        self.step_hooks = {}       # step number -> [fn]
        self.quiescent = False
        self.n_switches = 0
        self.errors = []           # harness errors noticed inside tasks
        self.idle_cost_ns = 20_000
        self.fifo = False          # True: always run the first runnable task (reference schedule)
        self.on_task_start = None  # hook run in a task's own thread before its function (e.g. to install sys.settrace)

    # -- time and events ----------------------------------------------------------------------------------------------

    def at(self, t_ns, fn):
        self._seq += 1
        heapq.heappush(self.heap, (max(int(t_ns), self.now), self._seq, fn))

    def after(self, d_ns, fn):
        self.at(self.now + int(d_ns), fn)

    def at_step(self, step, fn):
        self.step_hooks.setdefault(step, []).append(fn)

    # -- processes and tasks ------------------------------------------------------------------------------------------

    def new_proc(self, name, inc=0):
        p = Proc(name, inc)
        for i, (obj, attr, factory) in enumerate(self.proc_locals):
            p.locals[i] = factory()
        self.procs.append(p)
        return p

    def spawn(self, proc, name, fn, on_done=None):
        t = Task(len(self.tasks), name, proc, fn)
        t.on_done = on_done
        self.tasks.append(t)
        proc.tasks.append(t)
        th = threading.Thread(target=self._task_main, args=(t,), name=f'sim-{name}', daemon=True)
        th._sim_ok = True
        t.thread = th
        th.start()
        return t

    def _task_main(self, t):
        t.lock.acquire()           # parked until first chosen
        try:
            if self.aborting:
                raise SimAbort
            if not t.proc.alive:
                raise SimKilled
            if self.on_task_start is not None:
                self.on_task_start(t)
            t.result = t.fn()
        except SimKilled:
            t.exc = 'killed'
        except SimAbort:
            t.exc = 'aborted'
        except BaseException as exc:   # the real code's own exception leaving the task: recorded, not a harness error
            t.exc = exc
        t.state = DONE
        if t.on_done is not None:
            try:
                t.on_done(t)
            except BaseException as exc:
                self.errors.append(f'on_done of {t.name}: {exc!r}')
        try:
            self._dispatch(finished=True)
        except BaseException as exc:
            self.errors.append(f'dispatch after {t.name}: {exc!r}')
            self.stop_reason = self.stop_reason or 'harness-error'
            self._switch(self.controller, wait=False)

    # -- yield point --------------------------------------------------------------------------------------------------

    def check_alive(self):
        cur = self.current
        if cur is None or cur.is_main:
            return
        if self.aborting:
            raise SimAbort
        if not cur.proc.alive:
            raise SimKilled

    def block(self, pred=None, deadline=None, label=''):
        """Yield point. With neither pred nor deadline the task stays runnable. Returns True if pred holds on wake-up
        (or no pred was given), False if woken by the deadline only."""
        cur = self.current
        if cur is None or cur.is_main:
            raise HarnessError(f'sim primitive {label!r} used outside a simulated task')
        if self.aborting:
            raise SimAbort
        if not cur.proc.alive:
            raise SimKilled
        cur.pred = pred
        cur.deadline = deadline
        cur.label = label
        cur.state = BLOCKED if (pred is not None or deadline is not None) else READY
        self._dispatch()
        cur.state = READY
        if self.aborting:
            raise SimAbort
        if not cur.proc.alive:
            raise SimKilled
        cur.pred = None
        cur.deadline = None
        return True if pred is None else bool(pred())

    def sleep_ns(self, d_ns, label='sleep'):
        self.block(None, self.now + max(0, int(d_ns)), label)

    # -- the scheduling decision --------------------------------------------------------------------------------------

    def _runnable(self):
        now = self.now
        out = []
        for t in self.tasks:
            st = t.state
            if st is DONE:
                continue
            p = t.proc
            if not p.alive:
                return [t], True          # zombie: unwind first, deterministically
            if p.stall_until > now:
                continue
            if st is BLOCKED:
                if t.deadline is not None and t.deadline <= now:
                    out.append(t)
                elif t.pred is not None and t.pred():
                    out.append(t)
            else:
                out.append(t)
        return out, False

    def _next_time(self):
        nt = self.heap[0][0] if self.heap else None
        now = self.now
        for t in self.tasks:
            if t.state is DONE or not t.proc.alive:
                continue
            su = t.proc.stall_until
            if su > now:
                if nt is None or su < nt:
                    nt = su
            elif t.state is BLOCKED and t.deadline is not None:
                if nt is None or t.deadline < nt:
                    nt = t.deadline
        return nt

    def _dispatch(self, finished=False):
        if self.aborting:     # teardown: a finishing task gives the baton back to the controller
            return self._switch(self.controller, wait=not finished)
        cur = self.current
        while True:
            # 1. deliver everything due
            heap = self.heap
            while heap and heap[0][0] <= self.now:
                _, _, fn = heapq.heappop(heap)
                fn()
            if self.stop_reason is not None:
                return self._switch(self.controller, wait=not finished)
            # 2. who can run
            runnable, zombie = self._runnable()
            if not runnable:
                nt = self._next_time()
                if nt is None:
                    self.quiescent = True
                    self.stop_reason = 'quiescent'
                    return self._switch(self.controller, wait=not finished)
                if self.t_end is not None and nt > self.t_end:
                    self.now = self.t_end
                    self.stop_reason = 't_end'
                    return self._switch(self.controller, wait=not finished)
                self.now = nt
                if self.stop_pred is not None:
                    r = self.stop_pred()
                    if r:
                        self.stop_reason = r
                        return self._switch(self.controller, wait=not finished)
                continue
            if self.t_end is not None and self.now >= self.t_end and not zombie:
                self.stop_reason = 't_end'
                return self._switch(self.controller, wait=not finished)
            # 3. choose
            if zombie or len(runnable) == 1 or self.fifo:
                nxt = runnable[0]
            else:
                nxt = runnable[self.choice.draw('sched', len(runnable))]
            self.step += 1
            step = self.step
            if self.log_steps:
                self.digest.add(step, self.now, nxt.tid, nxt.label)
                tr = self.trace
                tr.append((step, self.now, nxt.name, nxt.label))
                if len(tr) > self.trace_cap:
                    del tr[:self.trace_cap // 2]
            hooks = self.step_hooks.pop(step, None)
            if hooks:
                for fn in hooks:
                    fn()
                if not nxt.proc.alive or nxt.proc.stall_until > self.now:
                    continue      # the hook killed or stalled the chosen one: decide again
            if step >= self.max_steps:
                self.stop_reason = 'max_steps'
                return self._switch(self.controller, wait=not finished)
            if nxt is cur and not finished:
                return
            return self._switch(nxt, wait=not finished)

    def _switch(self, target, wait=True):
        prev = self.current
        if target is prev:
            return
        self.n_switches += 1
        # process-local globals
        pl = self.proc_locals
        if pl:
            pp = prev.proc if prev is not None and not prev.is_main else None
            tp = target.proc if not target.is_main else None
            if pp is not tp:
                src = pp.locals if pp is not None else self._ctl_locals
                dst = tp.locals if tp is not None else self._ctl_locals
                for i, (obj, attr, factory) in enumerate(pl):
                    src[i] = getattr(obj, attr, None)
                    if i not in dst:
                        dst[i] = factory()
                    setattr(obj, attr, dst[i])
        self.current = target
        target.lock.release()
        if wait:
            prev.lock.acquire()

    # -- faults -------------------------------------------------------------------------------------------------------

    def kill(self, proc):
        """SIGKILL. The caller (world) is responsible for telling the network / file system about it first."""
        proc.alive = False

    def stall(self, proc, d_ns):
        proc.stall_until = max(proc.stall_until, self.now + int(d_ns))

    # -- controller side ----------------------------------------------------------------------------------------------

    def run(self, t_end_ns=None, stop_pred=None):
        """Run from the controlling thread until a stop condition. Returns the stop reason."""
        self.t_end = t_end_ns
        self.stop_pred = stop_pred
        self.stop_reason = None
        self.quiescent = False
        ctl = self.controller
        self.current = ctl
        # the controller is never in self.tasks; dispatch picks the first task
        # the controller behaves like a yielding task: it parks on its own lock until someone switches back to it
        self._dispatch(finished=False)
        return self.stop_reason

    def teardown(self, join_timeout=5.0):
        """Unwind every remaining task (SimAbort) and join its thread."""
        self.aborting = True
        self.stop_reason = None
        self.t_end = None
        self.stop_pred = None
        self.heap.clear()
        self.step_hooks.clear()
        ctl = self.controller
        for t in self.tasks:
            if t.state is not DONE:
                # hand the baton directly to t; it raises SimAbort at its yield point, finishes, and because aborting
                # is set, _dispatch below returns the baton to the controller
                self.current = ctl
                self._switch(t, wait=True)
        for t in self.tasks:
            if t.thread is not None:
                t.thread.join(join_timeout)
                if t.thread.is_alive():
                    raise HarnessError(f'task {t.name} did not unwind')
        # restore controller-side process-local globals
        self.current = None

