"""Simulated ZeroMQ: a fake `zmq` module object plus the network behind it.

Implements exactly the API surface openfilter/filter_runtime/zeromq.py uses and the libzmq 4.3 semantics its
protocol relies on (see DESIGN.md section 2.4): asynchronous connects with retries, slow joiner (a PUB learns a
subscriber's prefixes only when the subscription batch arrives on the new connection), FIFO pipes with drawn latency,
atomic multipart messages, PUB drops on HWM, connect-side PUSH queues up to SNDHWM while disconnected and keeps that
queue across listener restarts, LINGER=0 discards on close, peer death breaks connections, Poller returns ready
sockets in registration order.

All mutation happens either in the calling task (send, recv, close) or in heap events (delivery, connect attempt,
fault) - never concurrently, because only one task holds the baton.
"""

from collections import deque

PAIR, PUB, SUB, REQ, REP, DEALER, ROUTER, PULL, PUSH = 0, 1, 2, 3, 4, 5, 6, 7, 8
SUBSCRIBE, UNSUBSCRIBE = 6, 7
LINGER, RECONNECT_IVL, RECONNECT_IVL_MAX = 17, 18, 21
SNDHWM, RCVHWM = 23, 24
POLLIN, POLLOUT = 1, 2
DONTWAIT, NOBLOCK, SNDMORE = 1, 1, 2
IMMEDIATE = 39

TYPE_NAMES = {PUB: 'PUB', SUB: 'SUB', PULL: 'PULL', PUSH: 'PUSH'}

DEFAULT_HWM = 1000
MS = 1_000_000


class ZMQError(Exception):
    def __init__(self, errno=None, msg=None):
        self.errno = errno
        self.strerror = msg or 'ZMQError'
        super().__init__(self.strerror)


class Again(ZMQError):
    def __init__(self):
        super().__init__(11, 'Resource temporarily unavailable')


class ContextTerminated(ZMQError):
    pass


def endpoint_key(addr: str):
    """All hosts are one machine: tcp endpoints are identified by port, ipc endpoints by path."""
    if addr.startswith('tcp://'):
        hostport = addr[6:]
        host, _, port = hostport.rpartition(':')
        if not host:
            raise ZMQError(22, f'Invalid argument (no port in {addr!r})')
        return ('tcp', int(port))
    if addr.startswith('ipc://'):
        return ('ipc', addr[6:])
    raise ZMQError(93, f'Protocol not supported ({addr!r})')


class Pipe:
    """One established connection between a connect-side socket `a` and a bind-side socket `b`."""

    __slots__ = ('pid', 'a', 'b', 'alive', 'cut', 'last_ab', 'last_ba', 'n_ab', 'n_ba', 'subs', 'extra_ab', 'extra_ba',
                 'key')

    def __init__(self, pid, a, b, key):
        self.pid = pid
        self.a = a
        self.b = b
        self.key = key
        self.alive = True     # usable for new sends
        self.cut = False      # hard cut: in-flight messages are lost as well
        self.last_ab = 0
        self.last_ba = 0
        self.n_ab = 0         # messages a->b sent and not yet consumed by b
        self.n_ba = 0
        self.subs = []        # PUB side's knowledge of the SUB's subscription prefixes
        self.extra_ab = None  # (t_from, t_to, extra_ns) delay spike
        self.extra_ba = None


class Connector:
    __slots__ = ('sock', 'key', 'addr', 'pipe', 'attempts')

    def __init__(self, sock, key, addr):
        self.sock = sock
        self.key = key
        self.addr = addr
        self.pipe = None
        self.attempts = 0


class Socket:
    _n = 0

    def __init__(self, net, type_, owner):
        self.net = net
        self.type = type_
        self.owner = owner
        self.sid = net._next_sid()
        self.opts = {}
        self.closed = False
        self.bound = []          # endpoint keys
        self.connectors = []     # Connector
        self.pipes = []          # established pipes (either role)
        self.inq = deque()       # (parts, pipe)
        self.outq = deque()      # PUSH: messages accepted while not connected
        self.subscriptions = []  # SUB: prefixes (bytes)
        self.created_step = net.sched.step
        net.sockets.append(self)
        net.stats['sockets_created'] += 1

    def __hash__(self):
        return self.sid

    def __eq__(self, other):
        return self is other

    def __repr__(self):
        return f'<Sim{TYPE_NAMES.get(self.type, self.type)} #{self.sid} of {self.owner.key if self.owner else None}>'

    @property
    def live(self):
        return not self.closed and (self.owner is None or self.owner.alive)

    # -- options ------------------------------------------------------------------------------------------------------

    def setsockopt(self, opt, val):
        self.net.sched.check_alive()
        if self.closed:
            raise ZMQError(88, 'Socket operation on non-socket')
        if opt == SUBSCRIBE:
            if isinstance(val, str):
                val = val.encode()
            self._subscribe(bytes(val))
        else:
            self.opts[opt] = val

    def setsockopt_string(self, opt, val, encoding='utf-8'):
        self.setsockopt(opt, val.encode(encoding))

    def getsockopt(self, opt):
        return self.opts.get(opt, 0)

    def _subscribe(self, prefix):
        if self.type != SUB:
            raise ZMQError(22, 'Invalid argument')
        self.subscriptions.append(prefix)
        for pipe in self.pipes:       # established already: the subscription travels on its own
            if pipe.alive:
                self.net._send_ctrl(pipe, [prefix])

    # -- bind / connect / close ---------------------------------------------------------------------------------------

    def bind(self, addr):
        net = self.net
        net.sched.block(label='bind')
        key = endpoint_key(addr.replace('tcp://*', 'tcp://0.0.0.0'))
        cur = net.endpoints.get(key)
        if cur is not None and cur.live:
            raise ZMQError(98, f'Address already in use (addr={addr!r})')
        net.endpoints[key] = self
        self.bound.append(key)
        net.log('bind', self.sid, key)

    def connect(self, addr):
        net = self.net
        net.sched.block(label='connect')
        key = endpoint_key(addr)
        c = Connector(self, key, addr)
        self.connectors.append(c)
        net._schedule_attempt(c, first=True)

    def close(self, linger=None):
        net = self.net
        net.sched.check_alive()
        if self.closed:
            return
        net.sched.block(label='close')
        self._do_close()

    def _do_close(self, hard=False):
        """hard=True: owner was killed (connections break, nothing more is sent)."""
        net = self.net
        self.closed = True
        for key in self.bound:
            if net.endpoints.get(key) is self:
                del net.endpoints[key]
        if self.outq:
            net.stats['push_discarded_at_close'] += len(self.outq)
            self.outq.clear()
        for pipe in list(self.pipes):
            net._break_pipe(pipe, by=self)
        self.pipes = []
        net.log('close', self.sid, hard)

    # -- send / recv --------------------------------------------------------------------------------------------------

    def send_multipart(self, parts, flags=0, copy=True, track=False):
        net = self.net
        net.sched.block(label='send')
        if self.closed:
            raise ZMQError(88, 'Socket operation on non-socket')
        if net.fail_next and net.fail_next.get(self.owner) == 'send':
            del net.fail_next[self.owner]
            net.stats['injected_socket_errors'] += 1
            raise ZMQError(5, 'injected I/O error on send')
        parts = [p if isinstance(p, bytes) else _wire_bytes(p) for p in parts]
        if self.type == PUB:
            net._pub_send(self, parts)
        elif self.type == PUSH:
            net._push_send(self, parts, flags)
        else:
            raise ZMQError(95, 'Operation not supported')

    def recv_multipart(self, flags=0, copy=True, track=False):
        net = self.net
        if self.closed:
            raise ZMQError(88, 'Socket operation on non-socket')
        if not self.inq:
            if flags & DONTWAIT:
                net.sched.block(label='recv-again')
                raise Again()
            net.sched.block(lambda: bool(self.inq), None, 'recv')
        else:
            net.sched.block(label='recv')
        if net.fail_next and net.fail_next.get(self.owner) == 'recv':
            del net.fail_next[self.owner]
            net.stats['injected_socket_errors'] += 1
            raise ZMQError(5, 'injected I/O error on recv')
        parts, pipe = self.inq.popleft()
        if pipe is not None:
            if pipe.a is self:
                pipe.n_ba -= 1
            else:
                pipe.n_ab -= 1
        if self.type == PULL:
            net.tap('pullrecv', self, parts, pipe)
        elif self.type == SUB and len(parts) > 1 and b'"mid":-2' in parts[1]:
            net.tap('subrecv_oob', self, parts, pipe)
        return list(parts)

    def send(self, data, flags=0, **kw):
        return self.send_multipart([data], flags)

    def recv(self, flags=0, **kw):
        return self.recv_multipart(flags)[0]


class Poller:
    def __init__(self, net):
        self.net = net
        self.sockets = []   # [(socket, flags)] in registration order

    def register(self, socket, flags=POLLIN | POLLOUT):
        for i, (s, _) in enumerate(self.sockets):
            if s is socket:
                if flags:
                    self.sockets[i] = (socket, flags)
                else:
                    del self.sockets[i]
                return
        if flags:
            self.sockets.append((socket, flags))

    modify = register

    def unregister(self, socket):
        for i, (s, _) in enumerate(self.sockets):
            if s is socket:
                del self.sockets[i]
                return
        raise KeyError(socket)

    def __contains__(self, socket):
        return any(s is socket for s, _ in self.sockets)

    def poll(self, timeout=None):
        net = self.net
        sched = net.sched
        socks = self.sockets

        def ready():
            for s, _ in socks:
                if s.inq:
                    return True
            return False

        if timeout is None or timeout < 0:
            sched.block(ready, None, 'poll')
        elif timeout == 0:
            sched.block(label='poll0')
            if not ready():
                # CPU-cost rule: an empty non-blocking wait costs a little virtual time, otherwise code that spins on
                # poll(0) during the last sub-millisecond of a deadline livelocks the simulation
                net.stats['idle_polls'] += 1
                sched.block(None, sched.now + sched.idle_cost_ns, 'idle')
        else:
            sched.block(ready, sched.now + int(timeout * MS), 'poll')
        return [(s, POLLIN) for s, f in socks if s.inq and (f & POLLIN)]


class Context:
    def __init__(self, net):
        self.net = net
        self.sockets = []
        self.closed = False

    def socket(self, type_):
        self.net.sched.check_alive()
        cur = self.net.sched.current
        s = Socket(self.net, type_, cur.proc if cur is not None and not cur.is_main else None)
        self.sockets.append(s)
        return s

    def destroy(self, linger=None):
        self.net.sched.check_alive()
        for s in self.sockets:
            if not s.closed:
                self.net.stats['closed_by_context_destroy'] += 1
                s._do_close()
        self.closed = True

    term = destroy


class Net:
    """The network: endpoints, connectors, pipes, delivery."""

    def __init__(self, sched, choice, knobs=None):
        self.sched = sched
        self.choice = choice
        k = dict(
            lat_min_ns=50_000, lat_max_ns=2_000_000, lat_buckets=8,
            conn_min_ns=100_000, conn_max_ns=5_000_000, conn_buckets=6,
            rcvhwm=DEFAULT_HWM, drop_pub=(0, 1),
        )
        k.update(knobs or {})
        self.knobs = k
        self.endpoints = {}
        self.sockets = []
        self.pipes = []
        self._sid = 0
        self._pid = 0
        self.blocked = set()       # frozenset({proc name, proc name}) partitions
        self.stats = _Counter()
        self.taps = []             # fn(kind, sock, parts, extra)
        self.events = []           # compact log of network events (for reports and digest)
        self.keep_events = False
        self.last_change_ns = 0    # virtual time of the last connection established / broken
        self.fail_next = {}        # proc -> 'send' | 'recv': the next such socket call of that process raises

    def _next_sid(self):
        self._sid += 1
        return self._sid

    def log(self, *items):
        self.sched.digest.add('net', *items)
        if self.keep_events:
            self.events.append((self.sched.step, self.sched.now) + items)

    def tap(self, kind, sock, parts, extra=None):
        for fn in self.taps:
            fn(kind, sock, parts, extra)

    # -- latency ------------------------------------------------------------------------------------------------------

    def _latency(self):
        k = self.knobs
        nb = k['lat_buckets']
        lo, hi = k['lat_min_ns'], k['lat_max_ns']
        if hi <= lo or nb <= 1:
            return lo
        return lo + (hi - lo) * self.choice.draw('lat', nb) // (nb - 1)

    def _conn_delay(self):
        k = self.knobs
        nb = k['conn_buckets']
        lo, hi = k['conn_min_ns'], k['conn_max_ns']
        if hi <= lo or nb <= 1:
            return lo
        return lo + (hi - lo) * self.choice.draw('conn', nb) // (nb - 1)

    def _deliver_time(self, pipe, a_to_b):
        now = self.sched.now
        t = now + self._latency()
        extra = pipe.extra_ab if a_to_b else pipe.extra_ba
        if extra is not None and extra[0] <= now < extra[1]:
            t += extra[2]
            self.stats['delay_spike_msgs'] += 1
        last = pipe.last_ab if a_to_b else pipe.last_ba
        if t <= last:
            t = last + 1           # FIFO per pipe direction
        if a_to_b:
            pipe.last_ab = t
        else:
            pipe.last_ba = t
        return t

    # -- connections --------------------------------------------------------------------------------------------------

    def _schedule_attempt(self, c, first=False):
        sock = c.sock
        ivl = sock.opts.get(RECONNECT_IVL, 100) * MS
        d = self._conn_delay() + (0 if first else ivl)
        self.sched.after(d, lambda: self._attempt(c))

    def _attempt(self, c):
        sock = c.sock
        if not sock.live or c.pipe is not None:
            return
        c.attempts += 1
        lst = self.endpoints.get(c.key)
        ok = lst is not None and lst.live and _compatible(sock.type, lst.type)
        if ok and self.blocked and sock.owner is not None and lst.owner is not None \
                and frozenset((sock.owner.name, lst.owner.name)) in self.blocked:
            ok = False
            self.stats['connect_blocked_by_partition'] += 1
        if not ok:
            self.stats['connect_retries'] += 1
            self._schedule_attempt(c)
            return
        self._pid += 1
        pipe = Pipe(self._pid, sock, lst, c.key)
        c.pipe = pipe
        self.pipes.append(pipe)
        sock.pipes.append(pipe)
        lst.pipes.append(pipe)
        self.stats['pipes_established'] += 1
        self.last_change_ns = self.sched.now
        self.log('pipe', pipe.pid, sock.sid, lst.sid)
        if sock.type == SUB and sock.subscriptions:
            self._send_ctrl(pipe, list(sock.subscriptions))     # one atomic batch
        elif sock.type == PUSH and sock.outq:
            n = len(sock.outq)
            while sock.outq:
                self._pipe_send(pipe, True, sock.outq.popleft())
            self.stats['push_backlog_flushed'] += n
            if lst.owner is not None and lst.owner.inc > 0:
                self.stats['push_backlog_flushed_to_restarted'] += n

    def _break_pipe(self, pipe, by=None, cut=False):
        """The connection is gone. `by`: the socket that closed/died (None: partition)."""
        if not pipe.alive:
            if cut:
                pipe.cut = True
            return
        pipe.alive = False
        pipe.cut = pipe.cut or cut
        self.last_change_ns = self.sched.now
        self.log('break', pipe.pid, by.sid if by is not None else None, cut)
        a, b = pipe.a, pipe.b
        for s in (a, b):
            if s is not by and pipe in s.pipes:
                s.pipes.remove(pipe)
        # the connect side retries for as long as it lives
        for c in a.connectors:
            if c.pipe is pipe:
                c.pipe = None
                if a.live and a is not by:
                    self._schedule_attempt(c)

    def _send_ctrl(self, pipe, prefixes):
        t = self._deliver_time(pipe, True)

        def deliver():
            if pipe.cut or not pipe.alive or not pipe.b.live:
                return
            pipe.subs.extend(prefixes)
            self.log('subs', pipe.pid, len(pipe.subs))

        self.sched.at(t, deliver)

    def _pipe_send(self, pipe, a_to_b, parts):
        dst = pipe.b if a_to_b else pipe.a
        t = self._deliver_time(pipe, a_to_b)
        if a_to_b:
            pipe.n_ab += 1
        else:
            pipe.n_ba += 1

        def deliver():
            if pipe.cut or not dst.live:
                self.stats['lost_in_flight'] += 1
                return
            dst.inq.append((parts, pipe))

        self.sched.at(t, deliver)

    # -- PUB / PUSH ---------------------------------------------------------------------------------------------------

    def _pub_send(self, sock, parts):
        head = parts[0]
        self.log('pub', sock.sid, head, len(parts))
        sent_to = []
        dropped = []
        k = self.knobs
        cap = sock.opts.get(SNDHWM, DEFAULT_HWM)
        dnum, dden = k['drop_pub']
        for pipe in sock.pipes:
            if not pipe.alive:
                continue
            for pfx in pipe.subs:
                if head.startswith(pfx):
                    break
            else:
                continue
            peer = pipe.a if pipe.b is sock else pipe.b
            a_to_b = pipe.a is sock
            n = pipe.n_ab if a_to_b else pipe.n_ba
            if n >= cap + peer.opts.get(RCVHWM, k['rcvhwm']):
                self.stats['pub_hwm_drops'] += 1
                dropped.append(peer)
                continue
            if dnum and self.choice.chance('drop', dnum, dden):
                self.stats['pub_fault_drops'] += 1
                dropped.append(peer)
                continue
            self._pipe_send(pipe, a_to_b, parts)
            sent_to.append(peer)
        if not sent_to and not dropped:
            self.stats['pub_no_subscriber'] += 1
        self.tap('pub', sock, parts, (sent_to, dropped))

    def _push_send(self, sock, parts, flags):
        cap = sock.opts.get(SNDHWM, DEFAULT_HWM)
        pipe = None
        for p in sock.pipes:
            if p.alive:
                pipe = p
                break
        if pipe is not None:
            peer = pipe.b if pipe.a is sock else pipe.a
            a_to_b = pipe.a is sock
            n = pipe.n_ab if a_to_b else pipe.n_ba
            if n >= cap + peer.opts.get(RCVHWM, self.knobs['rcvhwm']):
                self.stats['push_again'] += 1
                self._push_full(sock, flags)
                return
            self.log('push', sock.sid, len(parts))
            self._pipe_send(pipe, a_to_b, parts)
            self.tap('push', sock, parts, 'wire')
            return
        if not sock.connectors or len(sock.outq) >= cap:
            self.stats['push_again'] += 1
            self._push_full(sock, flags)
            return
        self.log('pushq', sock.sid, len(parts))
        sock.outq.append(parts)
        self.stats['push_queued_disconnected'] += 1
        self.tap('push', sock, parts, 'queued')

    def _push_full(self, sock, flags):
        if flags & DONTWAIT:
            raise Again()
        # blocking send on a full PUSH: wait until there is room (not used by openfilter)
        self.sched.block(lambda: any(p.alive for p in sock.pipes), None, 'push-block')

    # -- faults -------------------------------------------------------------------------------------------------------

    def proc_killed(self, proc):
        """All sockets of the process vanish: connections break, nothing it queued locally survives."""
        for s in self.sockets:
            if s.owner is proc and not s.closed:
                s._do_close(hard=True)

    def partition(self, name_a, name_b):
        pair = frozenset((name_a, name_b))
        self.blocked.add(pair)
        n = 0
        for pipe in list(self.pipes):
            if pipe.alive and pipe.a.owner is not None and pipe.b.owner is not None and \
                    frozenset((pipe.a.owner.name, pipe.b.owner.name)) == pair:
                self._break_pipe(pipe, by=None, cut=True)
                n += 1
        self.stats['partition_pipes_cut'] += n
        return n

    def heal(self, name_a, name_b):
        self.blocked.discard(frozenset((name_a, name_b)))

    def delay_spike(self, pipe, a_to_b, t_from, t_to, extra_ns):
        if a_to_b:
            pipe.extra_ab = (t_from, t_to, extra_ns)
        else:
            pipe.extra_ba = (t_from, t_to, extra_ns)

    def pending_connections(self):
        """Connect-side sockets whose listener exists but whose connection is not established yet."""
        n = 0
        for s in self.sockets:
            if not s.live:
                continue
            for c in s.connectors:
                if c.pipe is None:
                    lst = self.endpoints.get(c.key)
                    if lst is not None and lst.live:
                        n += 1
        return n

    # -- census -------------------------------------------------------------------------------------------------------

    def open_sockets(self, proc):
        return [s for s in self.sockets if s.owner is proc and not s.closed]


def _wire_bytes(p):
    """What libzmq puts on the wire for a buffer object: its MEMORY, not its logical row-major content (they differ for
    Fortran-ordered arrays)."""
    if isinstance(p, memoryview):
        return p.tobytes(order='A') if p.contiguous else bytes(p)
    try:
        mv = memoryview(p)
    except TypeError:
        return bytes(p)
    return mv.tobytes(order='A') if mv.contiguous else bytes(mv)


def _compatible(a, b):
    return (a, b) in ((SUB, PUB), (PUSH, PULL), (PUB, SUB), (PULL, PUSH))


class _Counter(dict):
    def __missing__(self, key):
        return 0


class SimZmq:
    """The object bound as `zeromq.zmq`: constants, Context, Poller, Socket, Again."""

    PAIR, PUB, SUB, REQ, REP, DEALER, ROUTER, PULL, PUSH = PAIR, PUB, SUB, REQ, REP, DEALER, ROUTER, PULL, PUSH
    SUBSCRIBE, UNSUBSCRIBE = SUBSCRIBE, UNSUBSCRIBE
    LINGER, RECONNECT_IVL, RECONNECT_IVL_MAX = LINGER, RECONNECT_IVL, RECONNECT_IVL_MAX
    SNDHWM, RCVHWM = SNDHWM, RCVHWM
    POLLIN, POLLOUT = POLLIN, POLLOUT
    DONTWAIT, NOBLOCK, SNDMORE = DONTWAIT, NOBLOCK, SNDMORE
    IMMEDIATE = IMMEDIATE
    Again = Again
    ZMQError = ZMQError
    ContextTerminated = ContextTerminated
    Socket = Socket

    def __init__(self, net):
        self.net = net

    def Context(self, *a, **kw):
        return Context(self.net)

    def Poller(self):
        return Poller(self.net)

    def zmq_version(self):
        return 'sim-4.3'
