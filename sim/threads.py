"""Simulated `threading`: Thread is a scheduler task of the calling simulated process; Event / Lock / RLock are
scheduler objects. Every operation is a yield point so that the scheduler decides each interleaving."""

import threading as _real


class SimEvent:
    def __init__(self, sched, name='event'):
        self._s = sched
        self._flag = False
        self.name = name
        self.set_log = []     # (step, now, setter task name)

    def is_set(self):
        return self._flag

    isSet = is_set

    def set(self):
        s = self._s
        cur = s.current
        if cur is not None and not cur.is_main:
            s.block(label=f'{self.name}.set')
            self.set_log.append((s.step, s.now, cur.name))
        else:
            self.set_log.append((s.step, s.now, 'controller'))
        self._flag = True

    def force_set(self):
        """Set from harness context (heap event / step hook): never a yield point."""
        self.set_log.append((self._s.step, self._s.now, 'harness'))
        self._flag = True

    def clear(self):
        s = self._s
        cur = s.current
        if cur is not None and not cur.is_main:
            s.block(label=f'{self.name}.clear')
        self._flag = False

    def wait(self, timeout=None):
        s = self._s
        cur = s.current
        if cur is None or cur.is_main:
            return self._flag
        if self._flag:
            s.block(label=f'{self.name}.wait')
            return True
        deadline = None if timeout is None else s.now + max(0, int(timeout * 1e9))
        s.block(lambda: self._flag, deadline, f'{self.name}.wait')
        return self._flag


class SimLock:
    def __init__(self, sched, name='lock', reentrant=False):
        self._s = sched
        self._owner = None
        self._count = 0
        self._re = reentrant
        self.name = name

    def acquire(self, blocking=True, timeout=-1):
        s = self._s
        cur = s.current
        if cur is None or cur.is_main:
            return True
        if self._re and self._owner is cur:
            self._count += 1
            return True
        if self._owner is None:
            s.block(label=f'{self.name}.acquire')
        if self._owner is not None:
            if not blocking:
                return False
            deadline = None if timeout is None or timeout < 0 else s.now + int(timeout * 1e9)
            s.block(lambda: self._owner is None, deadline, f'{self.name}.acquire-wait')
            if self._owner is not None:
                return False
        self._owner = cur
        self._count = 1
        return True

    def release(self):
        s = self._s
        cur = s.current
        if cur is None or cur.is_main:
            return
        if self._owner is not cur:
            if not cur.proc.alive or s.aborting:
                return
            raise RuntimeError('release unlocked lock')
        self._count -= 1
        if self._count == 0:
            self._owner = None
            try:
                s.block(label=f'{self.name}.release')
            except BaseException:
                raise

    def locked(self):
        return self._owner is not None

    def __enter__(self):
        self.acquire()
        return self

    def __exit__(self, *exc):
        # must not raise a second time while a kill/abort unwinds through a with-block
        s = self._s
        cur = s.current
        if self._owner is cur:
            self._count -= 1
            if self._count == 0:
                self._owner = None
                if cur is not None and not cur.is_main and cur.proc.alive and not s.aborting and exc[0] is None:
                    s.block(label=f'{self.name}.release')
        return False


class SimThread:
    _counter = 0

    def __init__(self, sched, group=None, target=None, name=None, args=(), kwargs=None, daemon=None, inline=False):
        self._s = sched
        self._target = target
        self._args = args
        self._kwargs = kwargs or {}
        SimThread._counter += 1
        self.name = name or f'SimThread-{target.__name__ if target is not None else "x"}'
        self.daemon = daemon
        self._task = None
        self._inline = inline
        self._started = False
        self._done = False
        self.ident = None

    def run(self):
        if self._target is not None:
            self._target(*self._args, **self._kwargs)

    def start(self):
        s = self._s
        cur = s.current
        if self._started:
            raise RuntimeError('threads can only be started once')
        self._started = True
        if self._inline or cur is None or cur.is_main:
            try:
                self.run()
            finally:
                self._done = True
            return
        s.check_alive()

        def body():
            try:
                self.run()
            finally:
                self._done = True

        self._task = s.spawn(cur.proc, f'{cur.proc.key}:{self.name}', body)
        self.ident = self._task.tid
        s.block(label='thread.start')

    def is_alive(self):
        return self._started and not self._done

    def join(self, timeout=None):
        s = self._s
        cur = s.current
        if not self._started:
            raise RuntimeError('cannot join thread before it is started')
        if self._done or cur is None or cur.is_main:
            return
        deadline = None if timeout is None else s.now + max(0, int(timeout * 1e9))
        s.block(lambda: self._done, deadline, 'thread.join')


class SimThreading:
    """Module-like object bound as `<module>.threading`."""

    def __init__(self, sched, inline_threads=False):
        self._s = sched
        self._inline = inline_threads
        self.n_threads = 0
        self.TIMEOUT_MAX = _real.TIMEOUT_MAX

    def Thread(self, group=None, target=None, name=None, args=(), kwargs=None, *, daemon=None):
        self.n_threads += 1
        return SimThread(self._s, group, target, name, args, kwargs, daemon, inline=self._inline)

    def Event(self):
        return SimEvent(self._s)

    def Lock(self):
        return SimLock(self._s)

    def RLock(self):
        return SimLock(self._s, reentrant=True)

    def current_thread(self):
        return _real.current_thread()

    def get_ident(self):
        cur = self._s.current
        return cur.tid if cur is not None else 0
