"""Sensitivity self-test: break each property on purpose in a scratch copy of /repo's package (outside /repo and
/verif, removed afterwards) and confirm that the intended check raises an alarm within its quick budget.

usage: ./check selftest sensitivity [name-substring ...]
"""

import os
import shutil
import subprocess
import sys
import tempfile
import time

VERIF = os.path.dirname(os.path.dirname(os.path.abspath(__file__)))

ZQ = 'openfilter/filter_runtime/zeromq.py'
FL = 'openfilter/filter_runtime/filter.py'
FR = 'openfilter/filter_runtime/frame.py'
LN = 'openfilter/observability/lineage.py'
RL = 'openfilter/filter_runtime/rolllog.py'

# (name, property whose check must catch it, file, old text, new text, cases budget)
MUTANTS = [
    ('c01-no-sibling-invalidation', 'C01', ZQ,
     "                        elif res and not balance:\n",
     "                        elif False:\n", 1500),
    ('c01-newer-id-on-empty-buffer-is-same-id', 'C01', ZQ,
     "                            if msg_id > min_recv_id_:  # newer than expected, other senders' buffered older frames must be invalidated\n                                return True\n",
     "", 1500),
    ('c01-forget-id-across-timeout', 'C01', ZQ,
     "                self.part_id = min_recv_id\n", "                pass\n", 2500),
    ('c02-accept-older-ids', 'C02', ZQ,
     "                        if msg_id < min_recv_id_:  # discard older messages if we are expecting newer\n",
     "                        if False:\n", 2500),
    ('c03-hidden-topics-expected-under-all-topics', 'C03', ZQ,
     "{t: msg if t == topic else None for t in topics if not t.startswith('_')}  # subscribed to lowercase all",
     "{t: msg if t == topic else None for t in topics}  # subscribed to lowercase all", 1500),
    ('c02-topic-map-reversed', 'C02', ZQ,
     "                self.topic_map = dict(topics)\n",
     "                self.topic_map = {d: s for s, d in topics}\n", 1500),
    ('c03-empty-dict-treated-as-none', 'C03', FL,
     "        if (processed_frames := self.process(frames)) is None:\n            return None\n",
     "        if not (processed_frames := self.process(frames)):\n            return None\n", 1500),
    ('c03-callable-evaluated-early', 'C03', FL,
     "        if callable(processed_frames):\n            return lambda: None if (f := processed_frames()) is None else {'main': f} if isinstance(f, Frame) else f\n",
     "        if callable(processed_frames):\n            f0 = processed_frames()\n            return lambda: None if (f := f0) is None else {'main': f} if isinstance(f, Frame) else f\n", 1500),
    ('c04-mark-kept-after-publish', 'C04', ZQ,
     "                clients[full_id] = ZMQSender.Client(client_id, pull, t_last, False, ephemeral, prev_id)\n",
     "                clients[full_id] = ZMQSender.Client(client_id, pull, t_last, True, ephemeral, prev_id)\n", 600),
    ('c05-ephemeral-holds-up-publisher', 'C05', ZQ,
     "                elif not requested and not ephemeral:  # if at least one non-ephemeral connection hasn't requested yet then we don't send\n",
     "                elif not requested:  # if at least one connection hasn't requested yet then we don't send\n", 1500),
    ('c05-doubly-ephemeral-sends-requests', 'C05', ZQ,
     "            self.push        = push = context.socket(zmq.PUSH) if ephemeral < 2 else None\n",
     "            self.push        = push = context.socket(zmq.PUSH)\n", 1500),
    ('c06-never-drop-timed-out-clients', 'C06', ZQ,
     "                if t_last < t_min:  # if connection timed out then remove it from further consideration\n",
     "                if False:\n", 1200),
    ('c06-ignore-requested-newer-id', 'C06', ZQ,
     "            if prev_id >= msg_id and not ephemeral:  # if requesting higher frame number than we are sending then discard and return\n",
     "            if False:\n", 1200),
    ('c06-timed-out-required-still-connected', 'C06', ZQ,
     "            client_ids = set(client.client_id for client in clients.values() if client.t_last >= t_min)  # timed out clients (removed below) do not count as connected required outputs\n",
     "            client_ids = set(client.client_id for client in clients.values())\n", 1200),
    ('c07-publish-on-all-outputs', 'C07', ZQ,
     "                pubs        = [self.pubs[self.pulls.index(out_pull)]]\n",
     "                pubs        = self.pubs\n", 600),
    ('c08-swapped-exit-flags', 'C08', FL,
     "                        if prop_exit & (2 if is_exc else 1):\n",
     "                        if prop_exit & (1 if is_exc else 2):\n", 1500),
    ('c08-exit-after-ignored', 'C08', FL,
     "        if (exit_after_t := self.exit_after_t) is not None and time.time() >= exit_after_t:\n",
     "        if (exit_after_t := self.exit_after_t) is not None and False:\n", 1500),
    ('c08-shutdown-skipped-on-error', 'C08', FL,
     "                        finally:\n                            filter.shutdown()\n",
     "                        finally:\n                            if not isinstance(sys.exc_info()[1], Exception):\n                                filter.shutdown()\n", 1500),
    ('c10-cache-conversion-of-writable', 'C10', FR,
     "            if not image.flags.writeable:  # only cache for readonly source, a writable source can change after this\n                self.__ro_rgb = new\n",
     "            self.__ro_rgb = new\n", 20000),
    ('c10-ro-without-copy', 'C10', FR,
     "        new                   = Frame(image := self.image.copy(), self, self.__shapef[1])\n        image.flags.writeable = False\n",
     "        new                   = Frame(image := self.image.view(), self, self.__shapef[1])\n        image.flags.writeable = False\n", 20000),
    ('c18-terminal-not-idempotent', 'C18', LN,
     "            self._terminated = True\n\n            self._emit_event(event_type=event_type)\n",
     "            self._emit_event(event_type=event_type)\n", 800),
    ('c18-complete-on-error', 'C18', FL,
     "                if exc is None:  # clean exit\n", "                if True:\n", 800),
    ('c18-heartbeat-after-terminal', 'C18', LN,
     "                if self._terminated:  # nothing may follow the terminal event\n                    break\n\n",
     "", 1500),
]


def run(argv):
    want = [a for a in argv if not a.startswith('-')]
    results = []
    repo = os.environ.get('VERIF_REPO', '/repo')
    for name, prop, rel, old, new, cases in MUTANTS:
        if want and not any(w in name or w == prop for w in want):
            continue
        tmp = tempfile.mkdtemp(prefix='verif_sens_')
        try:
            shutil.copytree(os.path.join(repo, 'openfilter'), os.path.join(tmp, 'openfilter'),
                            ignore=shutil.ignore_patterns('__pycache__'))
            path = os.path.join(tmp, rel)
            src = open(path).read()
            if old not in src:
                results.append((name, prop, 'PATCH-DOES-NOT-APPLY', 0.0))
                continue
            open(path, 'w').write(src.replace(old, new, 1))
            env = dict(os.environ, VERIF_REPO=tmp, VERIF_CASES=str(cases), VERIF_BUDGET_S='150', VERIF_OUT=tmp)
            t0 = time.time()
            p = subprocess.run([sys.executable, os.path.join(VERIF, 'check.py'), prop, 'quick'], capture_output=True,
                               text=True, env=env, cwd=VERIF, timeout=1200)
            caught = p.returncode == 1 and 'VIOLATION property=' + prop in p.stdout
            first = next((l for l in p.stdout.splitlines() if l.strip().startswith('oracle=')), '').strip()
            results.append((name, prop, 'caught' if caught else f'MISSED (exit {p.returncode})', time.time() - t0, first[:160]))
        finally:
            shutil.rmtree(tmp, ignore_errors=True)
    bad = 0
    for r in results:
        print(f'{r[0]:48} {r[1]}  {r[2]:24} {r[3]:6.1f}s  {r[4] if len(r) > 4 else ""}')
        if r[2] != 'caught':
            bad += 1
    print(f'sensitivity: {len(results) - bad}/{len(results)} mutants caught')
    return 0 if not bad else 1
