"""Determinism self-test: the same (VERIF_SEED, property, case index) must give the same event-log digest
 (a) twice in one process, (b) in forked pool workers, (c) in a fresh interpreter under another PYTHONHASHSEED.
A divergence is a harness bug and blocks every verdict (exit 2)."""

import concurrent.futures as cf
import json
import multiprocessing as mp
import os
import subprocess
import sys

from sim.choice import derive_seed

VERIF = os.path.dirname(os.path.dirname(os.path.abspath(__file__)))
PROPS = ['C01', 'C02', 'C03', 'C04', 'C05', 'C06', 'C07', 'C08', 'C10', 'C13', 'C14', 'C15', 'C18']


def digests(props, n, seed=0):
    from checks.registry import spec_for
    out = {}
    for prop in props:
        try:
            spec = spec_for(prop, 'quick')
        except ModuleNotFoundError:
            continue
        for idx in range(n):
            r = spec.run_case(derive_seed(seed, prop, idx), None)
            out[f'{prop}:{idx}'] = (r.get('digest'), len(r.get('violations') or []))
    return out


def _worker(args):
    props, n, seed = args
    return digests(props, n, seed)


def run(argv):
    n = int(argv[0]) if argv else 6
    props = argv[1].split(',') if len(argv) > 1 else PROPS
    seed = int(os.environ.get('VERIF_SEED') or 0)
    if '--child' in argv:
        print('DIGESTS ' + json.dumps(digests(props, n, seed)))
        return 0
    a = digests(props, n, seed)
    b = digests(props, n, seed)
    bad = [k for k in a if a[k] != b[k]]
    print(f'same process twice: {len(a)} cases, {len(bad)} divergent')
    ctx = mp.get_context('fork')
    with cf.ProcessPoolExecutor(max_workers=4, mp_context=ctx) as ex:
        parts = list(ex.map(_worker, [([p], n, seed) for p in props if any(k.startswith(p + ':') for k in a)]))
    c = {}
    for p in parts:
        c.update(p)
    bad_c = [k for k in a if c.get(k) != a[k]]
    print(f'forked workers: {len(c)} cases, {len(bad_c)} divergent')
    env = dict(os.environ, PYTHONHASHSEED='4242', VERIF_NO_REEXEC='1')
    p = subprocess.run([sys.executable, os.path.join(VERIF, 'check.py'), 'selftest', 'determinism', str(n), ','.join(props),
                        '--child'], capture_output=True, text=True, env=env, cwd=VERIF, timeout=1800)
    line = next((l for l in p.stdout.splitlines() if l.startswith('DIGESTS ')), None)
    if line is None:
        print('HARNESS-ERROR: child produced no digests: ' + p.stderr[-800:])
        return 2
    d = {k: tuple(v) for k, v in json.loads(line[8:]).items()}
    bad_d = [k for k in a if d.get(k) != a[k]]
    print(f'fresh interpreter, PYTHONHASHSEED=4242: {len(d)} cases, {len(bad_d)} divergent')
    allbad = sorted(set(bad + bad_c + bad_d))
    if allbad:
        print('HARNESS-ERROR: non-deterministic cases: ' + ', '.join(allbad[:20]))
        return 2
    print('determinism ok')
    return 0
