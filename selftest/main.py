"""./check selftest <name>: seams | determinism | fidelity | conformance | sensitivity"""

import sys


def run(argv):
    name = argv[0] if argv else 'seams'
    if name == 'seams':
        from . import seams
        return seams.run()
    if name == 'determinism':
        from . import determinism
        return determinism.run(argv[1:])
    if name == 'fidelity':
        from . import fidelity
        return fidelity.run(argv[1:])
    if name == 'conformance':
        from . import conformance
        return conformance.run(argv[1:])
    if name == 'sensitivity':
        from . import sensitivity
        return sensitivity.run(argv[1:])
    print(f'unknown selftest {name!r}')
    return 2
