"""Verify that every seam of DESIGN.md 2.2 exists in /repo's working tree (a missing seam is a harness error)."""

from sim import patch as P

SEAMS = {
    'openfilter.filter_runtime.zeromq': ['zmq', 'time_ns', 'sleep', 'rndstr', 'os', 'ZMQ_POLL_TIMEOUT', 'ZMQ_CONN_TIMEOUT',
                                         'ZMQ_EXPLICIT_LINGER', 'ZMQ_CONN_HANDSHAKE', 'ZMQ_LOW_LATENCY', 'ZMQ_PUB_HWM',
                                         'ZMQ_PUSH_HWM', 'ZMQContext', 'ZMQSender', 'ZMQReceiver'],
    'openfilter.filter_runtime.mq': ['time', 'rndstr', 'Metrics', 'POLL_TIMEOUT_MS', 'MQ'],
    'openfilter.filter_runtime.filter': ['time', 'threading', 'rndstr', 'scarf_elogger', 'datetime', 'POLL_TIMEOUT_MS',
                                         'POLL_TIMEOUT_SEC', 'Filter', 'FilterContext'],
    'openfilter.filter_runtime.utils': ['time', 'sleep', 'datetime', 'once'],
    'openfilter.filter_runtime.logging': ['time', 'datetime'],
    'openfilter.filter_runtime.rolllog': ['os', 'time', 'datetime', 'RollLog'],
    'openfilter.filter_runtime.frame': ['Frame'],
    'openfilter.observability.lineage': ['threading', 'time', 'datetime', 'uuid', 'OpenFilterLineage'],
}


def run():
    missing = []
    for modname, names in SEAMS.items():
        try:
            m = P.mod(modname)
        except Exception as exc:
            print(f'HARNESS-ERROR: cannot import {modname}: {exc!r}')
            return 2
        for n in names:
            if not hasattr(m, n):
                missing.append(f'{modname}.{n}')
    if missing:
        print('HARNESS-ERROR: missing seams: ' + ', '.join(missing))
        return 2
    print(f'seams ok ({sum(len(v) for v in SEAMS.values())} names in {len(SEAMS)} modules)')
    return 0
