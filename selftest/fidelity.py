"""Fidelity self-test of the simulated ZeroMQ network: the repository's own lock-step protocol tests
(tests/test_zeromq.py::TestZeroMQTCP and ::TestZeroMQIPC, single-threaded scripts over real sockets) are executed
*inside the simulator* on the fake network and must pass there as they do on real libzmq.

usage: ./check selftest fidelity [test-name-substring ...]
"""

import importlib
import os
import random
import sys
import traceback

from sim import patch as P
from sim.choice import ChoiceSource
from sim.clock import SimClock
from sim.core import Scheduler, EPOCH_NS
from sim.zmqnet import Net, SimZmq


def run_one(cls_name, test_name, seed):
    P.ensure_repo_on_path()
    zq = P.mod('openfilter.filter_runtime.zeromq')
    ut = P.mod('openfilter.filter_runtime.utils')
    tmod = importlib.import_module('tests.test_zeromq')
    ch = ChoiceSource(seed)
    sched = Scheduler(ch, max_steps=2_000_000)
    sched.fifo = True
    net = Net(sched, ch, {'lat_min_ns': 30_000, 'lat_max_ns': 300_000, 'conn_min_ns': 100_000, 'conn_max_ns': 2_000_000})
    clock = SimClock(sched)
    pat = P.Patcher()
    result = {}
    saved_hs = zq.ZMQ_CONN_HANDSHAKE

    class _Os:
        def __init__(self, real):
            self.getenv = real.getenv
            self.environ = real.environ
            self.path = real.path

        def unlink(self, path):
            raise FileNotFoundError(path)

    try:
        pat.bind(zq, 'zmq', SimZmq(net))
        pat.bind(zq, 'time_ns', clock.time_ns)
        pat.bind(zq, 'sleep', clock.sleep)
        pat.bind(zq, 'os', _Os(os))
        pat.bind(ut, 'time', clock.time)
        pat.bind(tmod, 'sleep', clock.sleep)
        rnd = random.Random(seed)
        pat.bind(tmod, 'randint', rnd.randint)
        sched.proc_locals = [(zq.ZMQContext, 'context', lambda: (None, 0)), (ut.once, 'cache', dict)]
        for i, (obj, attr, factory) in enumerate(sched.proc_locals):
            sched._ctl_locals[i] = getattr(obj, attr, None)
        P.arm_tripwires(True)
        proc = sched.new_proc('test')
        cls = getattr(tmod, cls_name)

        def body():
            case = cls(test_name)
            try:
                if hasattr(cls, 'setUpClass'):
                    pass
                case.setUp()
                try:
                    getattr(case, test_name)()
                finally:
                    case.tearDown()
                result['ok'] = True
            except BaseException as exc:
                from sim.core import SimAbort, SimKilled
                if isinstance(exc, (SimAbort, SimKilled)):
                    raise
                result['ok'] = False
                result['err'] = ''.join(traceback.format_exception_only(type(exc), exc)).strip()[-300:]
                result['tb'] = traceback.format_exc()[-1200:]

        sched.spawn(proc, 'test', body)
        reason = sched.run(EPOCH_NS + 600 * 10 ** 9)
        result['stop'] = reason
        result['vtime'] = (sched.now - EPOCH_NS) / 1e9
        result['steps'] = sched.step
    finally:
        try:
            sched.teardown()
        finally:
            P.arm_tripwires(False)
            for i, (obj, attr, factory) in enumerate(sched.proc_locals):
                setattr(obj, attr, sched._ctl_locals.get(i))
            pat.restore()
            zq.ZMQ_CONN_HANDSHAKE = saved_hs
    hits = P.tripwire_hits()
    if hits:
        result['ok'] = False
        result['err'] = 'tripwire: ' + hits[0][-300:]
    return result


def run(argv):
    want = [a for a in argv if not a.startswith('-')]
    P.ensure_repo_on_path()
    tmod = importlib.import_module('tests.test_zeromq')
    zq = P.mod('openfilter.filter_runtime.zeromq')
    total = bad = 0
    for cls_name in ('TestZeroMQTCP', 'TestZeroMQIPC'):
        cls = getattr(tmod, cls_name)
        if hasattr(cls, 'setUpClass'):
            try:
                cls.setUpClass()
            except Exception:
                pass
        names = sorted(n for n in dir(cls) if n.startswith('test_'))
        for name in names:
            if want and not any(w in name for w in want):
                continue
            total += 1
            r = run_one(cls_name, name, seed=total)
            ok = r.get('ok') and r.get('stop') in ('quiescent',)
            if not r.get('ok'):
                bad += 1
            print(f'{cls_name}.{name:50} {"pass" if r.get("ok") else "FAIL"}  stop={r.get("stop")} t={r.get("vtime", 0):.2f}s '
                  f'steps={r.get("steps")} {r.get("err", "")}')
            if not r.get('ok') and '-v' in argv:
                print(r.get('tb'))
    print(f'fidelity: {total - bad}/{total} repository protocol tests pass on the simulated network')
    return 0 if bad == 0 else 1
