"""Micro-conformance of the simulated ZeroMQ against the installed pyzmq / libzmq (outside any verdict path): each
scenario is written once against the zmq API and executed (a) on real sockets (ipc endpoints in a temp dir, real
sleeps) and (b) inside the simulator; the observations must agree.

usage: ./check selftest conformance
"""

import os
import shutil
import tempfile

from sim.choice import ChoiceSource
from sim.clock import SimClock
from sim.core import Scheduler, EPOCH_NS
from sim.zmqnet import Net, SimZmq


def sc_push_hwm_without_listener(zmq, sleep, ep):
    """connect-side PUSH accepts exactly SNDHWM messages before any listener exists, then EAGAIN; delivers on bind."""
    ctx = zmq.Context()
    push = ctx.socket(zmq.PUSH)
    push.setsockopt(zmq.SNDHWM, 5)
    push.setsockopt(zmq.LINGER, 0)
    push.connect(ep('a'))
    sleep(0.05)
    accepted = 0
    for i in range(12):
        try:
            push.send_multipart([b'm%d' % i], zmq.DONTWAIT)
            accepted += 1
        except zmq.Again:
            break
    pull = ctx.socket(zmq.PULL)
    pull.bind(ep('a'))
    poller = zmq.Poller()
    poller.register(pull, zmq.POLLIN)
    got = []
    for _ in range(40):
        if poller.poll(50):
            got.append(pull.recv_multipart()[0])
        elif got:
            break
    push.close()
    pull.close()
    return {'accepted_before_listener': accepted, 'delivered_after_bind': got}


def sc_push_backlog_to_next_listener(zmq, sleep, ep):
    """messages queued while the listener is down are delivered to the NEXT listener on the same endpoint."""
    ctx = zmq.Context()
    pull1 = ctx.socket(zmq.PULL)
    pull1.bind(ep('b'))
    push = ctx.socket(zmq.PUSH)
    push.setsockopt(zmq.SNDHWM, 10)
    push.setsockopt(zmq.LINGER, 0)
    push.setsockopt(zmq.RECONNECT_IVL, 20)
    push.connect(ep('b'))
    sleep(0.1)
    push.send_multipart([b'first'], zmq.DONTWAIT)
    p = zmq.Poller()
    p.register(pull1, zmq.POLLIN)
    first = pull1.recv_multipart()[0] if p.poll(500) else None
    pull1.close()
    sleep(0.15)
    queued = 0
    for i in range(3):
        try:
            push.send_multipart([b'q%d' % i], zmq.DONTWAIT)
            queued += 1
        except zmq.Again:
            break
    pull2 = ctx.socket(zmq.PULL)
    pull2.bind(ep('b'))
    p2 = zmq.Poller()
    p2.register(pull2, zmq.POLLIN)
    got = []
    for _ in range(30):
        if p2.poll(50):
            got.append(pull2.recv_multipart()[0])
        elif got:
            break
    push.close()
    pull2.close()
    return {'first': first, 'queued_while_down': queued, 'delivered_to_next_listener': got}


def sc_pub_slow_joiner_and_prefix(zmq, sleep, ep):
    """PUB drops what is published before the subscription arrives; afterwards filters by byte prefix; multipart atomic."""
    ctx = zmq.Context()
    pub = ctx.socket(zmq.PUB)
    pub.bind(ep('c'))
    sub = ctx.socket(zmq.SUB)
    sub.connect(ep('c'))
    pub.send_multipart([b'/main/', b'early'])          # nobody subscribed yet
    sub.setsockopt(zmq.SUBSCRIBE, b'/main/')
    sub.setsockopt(zmq.SUBSCRIBE, b'//')
    sleep(0.2)
    pub.send_multipart([b'/main/', b'env', b'payload'])
    pub.send_multipart([b'/other/', b'env'])
    pub.send_multipart([b'/mainline/', b'env'])
    pub.send_multipart([b'//', b'topics'])
    pub.send_multipart([b'_hidden/', b'env'])
    p = zmq.Poller()
    p.register(sub, zmq.POLLIN)
    got = []
    for _ in range(20):
        if p.poll(50):
            got.append(sub.recv_multipart())
        elif got:
            break
    pub.close()
    sub.close()
    return {'received': [[bytes(x) for x in m] for m in got]}


def sc_poller_registration_order(zmq, sleep, ep):
    """Poller.poll returns ready sockets in registration order, not arrival order."""
    ctx = zmq.Context()
    pulls, pushes = [], []
    for i in range(3):
        s = ctx.socket(zmq.PULL)
        s.bind(ep('d%d' % i))
        pulls.append(s)
        c = ctx.socket(zmq.PUSH)
        c.setsockopt(zmq.LINGER, 0)
        c.connect(ep('d%d' % i))
        pushes.append(c)
    sleep(0.15)
    for i in (2, 0, 1):                 # arrival order 2, 0, 1
        pushes[i].send_multipart([b'x%d' % i], zmq.DONTWAIT)
        sleep(0.05)
    p = zmq.Poller()
    for s in pulls:
        p.register(s, zmq.POLLIN)
    ready = p.poll(200)
    order = [pulls.index(s) for s, _ in ready]
    p.unregister(pulls[0])
    order2 = [pulls.index(s) for s, _ in p.poll(0)]
    contains = (pulls[0] in p, pulls[1] in p)
    for s in pulls + pushes:
        s.close()
    return {'order': order, 'after_unregister': order2, 'contains': contains}


SCENARIOS = [sc_push_hwm_without_listener, sc_push_backlog_to_next_listener, sc_pub_slow_joiner_and_prefix,
             sc_poller_registration_order]


def run_real(fn):
    import time
    import zmq
    d = tempfile.mkdtemp(prefix='verif_conf_')
    try:
        return fn(zmq, time.sleep, lambda name: f'ipc://{d}/{name}')
    finally:
        shutil.rmtree(d, ignore_errors=True)


def run_sim(fn, seed=1):
    ch = ChoiceSource(seed)
    sched = Scheduler(ch)
    net = Net(sched, ch, {'lat_min_ns': 30_000, 'lat_max_ns': 300_000, 'conn_min_ns': 100_000, 'conn_max_ns': 2_000_000})
    clock = SimClock(sched)
    box = {}
    proc = sched.new_proc('conf')
    sched.spawn(proc, 'conf', lambda: box.update(res=fn(SimZmq(net), clock.sleep, lambda name: f'ipc://conf/{name}')))
    sched.run(EPOCH_NS + 120 * 10 ** 9)
    sched.teardown()
    return box.get('res')


def run(argv):
    bad = 0
    for fn in SCENARIOS:
        try:
            real = run_real(fn)
        except Exception as exc:
            print(f'{fn.__name__:40} real pyzmq unavailable here: {exc!r}')
            continue
        sim = run_sim(fn)
        same = real == sim
        bad += not same
        print(f'{fn.__name__:40} {"agree" if same else "DIFFER"}')
        print(f'    real: {real}')
        if not same:
            print(f'    sim : {sim}')
    print(f'conformance: {len(SCENARIOS) - bad}/{len(SCENARIOS)} scenarios agree with the installed pyzmq')
    return 0 if bad == 0 else 1
