#!/bin/sh
# usage: run_some.sh <tier> <PROP>...   - like run_all.sh for a subset of the claimed checks
cd "$(dirname "$0")" || exit 2
tier="$1"; shift
for p in "$@"; do
  ./check "$p" "$tier" 2>/dev/null | grep -v OpenLineage | cut -c1-240
done
