#!/venv/bin/python
"""Entry point: ./check <id> quick|thorough | replay <file> | selftest <name>   (see DESIGN.md section 7)."""

import os
import sys

HERE = os.path.dirname(os.path.abspath(__file__))

if os.environ.get('PYTHONHASHSEED') != '0' and not os.environ.get('VERIF_NO_REEXEC'):
    os.environ['PYTHONHASHSEED'] = '0'
    os.environ.setdefault('DO_NOT_TRACK', 'true')
    os.environ.setdefault('LOG_PATH', 'false')
    os.execv(sys.executable, [sys.executable, os.path.abspath(__file__)] + sys.argv[1:])

sys.path.insert(0, HERE)
os.environ.setdefault('DO_NOT_TRACK', 'true')
os.environ.setdefault('LOG_PATH', 'false')
for var in ('OPENLINEAGE_URL', 'TELEMETRY_EXPORTER_ENABLED', 'OPENLINEAGE_EXPORT_RAW_DATA'):
    os.environ.pop(var, None)


def setup_runtime():
    """Import openfilter from /repo's working tree, install tripwires and log capture (before the pool forks)."""
    import logging
    from sim import patch as P
    P.ensure_repo_on_path()
    sys.dont_write_bytecode = True
    real_stderr = sys.stderr
    try:
        fl = P.mod('openfilter.filter_runtime.filter')
    finally:
        sys.stderr = real_stderr
    P.install_tripwires()
    P.install_log_capture(logging.INFO)
    fl.FilterContext.init()
    return fl


def main(argv):
    if len(argv) < 2:
        print(__doc__)
        return 2
    cmd = argv[1]
    if cmd == 'replay':
        return cmd_replay(argv[2], quiet='--quiet' in argv)
    if cmd == 'selftest':
        setup_runtime()
        from selftest import main as st
        return st.run(argv[2:])
    prop = cmd.upper()
    tier = argv[2] if len(argv) > 2 else os.environ.get('VERIF_TIER', 'quick')
    if tier not in ('quick', 'thorough'):
        print(f'unknown tier {tier!r}')
        return 2
    seed = int(os.environ.get('VERIF_SEED') or 0)
    from sim.core import HarnessError
    try:
        setup_runtime()
        from checks.registry import spec_for
        from run import driver
        spec = spec_for(prop, tier)
        n, budget = spec.budget(tier)
        if os.environ.get('VERIF_CASES'):
            n = int(os.environ['VERIF_CASES'])
        if os.environ.get('VERIF_BUDGET_S'):
            budget = float(os.environ['VERIF_BUDGET_S'])
        batch = driver.run_batch(spec, tier, seed, n, budget)
        extra = spec.extra_coverage(batch) if hasattr(spec, 'extra_coverage') else None
        return driver.finish(spec, batch, tier, seed, spec.level, extra)
    except HarnessError as exc:
        print(f'HARNESS-ERROR: {exc}')
        return 2


def cmd_replay(path, quiet=False):
    import json
    setup_runtime()
    from checks.registry import spec_for
    from run import driver
    with open(path) as f:
        body = json.load(f)
    spec = spec_for(body['property'], 'quick')
    body, res = driver.replay_file(spec, path)
    want = body['violation']
    got = [v for v in res['violations'] if v['oracle'] == want['oracle'] and v['property'] == want['property']]
    same_digest = res.get('digest') == body.get('digest')
    if got and same_digest:
        print(f'REPRODUCED property={want["property"]} oracle={want["oracle"]} digest={res.get("digest")}')
        if not quiet:
            print(got[0]['message'])
            print(f'VIOLATION property={want["property"]} replay={path}')
        return 1
    print(f'NOT-REPRODUCED property={want["property"]} oracle={want["oracle"]} violations={len(res["violations"])} '
          f'digest_expected={body.get("digest")} digest_got={res.get("digest")} harness={res.get("harness_errors")}')
    return 2 if not got else 3


if __name__ == '__main__':
    sys.exit(main(sys.argv))
