#!/bin/sh
# usage: tools_seeded_regress.sh [id-prefix]   - re-runs, for every kept seeded change, the first check that is recorded
# as catching it (quick tier, scratch copy of the package, /repo untouched) and prints CAUGHT / MISSED per change.
# VERIF_WORKERS applies per check; changes are evaluated one after the other.
cd "$(dirname "$0")" || exit 2
rc=0
VERIF_MAX_REPORT=1; VERIF_MINIMISE_S=10; export VERIF_MAX_REPORT VERIF_MINIMISE_S
for d in seeded/${1:-}*/; do
  id=$(basename "$d")
  [ -f "$d/meta.json" ] || continue
  prop=$(/venv/bin/python -c "import json,sys; print((json.load(open('$d/meta.json'))['caught_by_checks'] or ['-'])[0])")
  if [ "$prop" = "-" ]; then echo "OPEN-GAP $id: recorded as not caught by any check"; continue; fi
  tier=$(/venv/bin/python -c "import json; print(json.load(open('$d/meta.json')).get('tier', 'quick'))")
  if [ "$tier" = "thorough" ]; then     # detected by the thorough tier only: bounded batch
    out=$(VERIF_SEEDED_TIER=thorough VERIF_BUDGET_S=${VERIF_BUDGET_S:-300} ./tools_seeded.sh "$d" "$prop" 2>&1)
  else
    out=$(./tools_seeded.sh "$d" "$prop" 2>&1)
  fi
  if echo "$out" | grep -q "^VIOLATION property=$prop"; then
    echo "CAUGHT $id by $prop: $(echo "$out" | grep -m1 'oracle=' | cut -c1-160)"
  else
    echo "MISSED $id by $prop: $(echo "$out" | head -1 | cut -c1-200)"; rc=1
  fi
done
exit $rc
