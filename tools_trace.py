"""Debug helper: replay a file and print the event log.  usage: tools_trace.py <replay.json> [kinds,...]"""
import sys, os, json
sys.path.insert(0, os.path.dirname(os.path.abspath(__file__)))
os.environ.setdefault('PYTHONHASHSEED', '0')
import check
check.setup_runtime()
from checks.registry import spec_for
from run import mqcase
from sim.core import EPOCH_NS
kinds = set(sys.argv[2].split(',')) if len(sys.argv) > 2 else {'in', 'pub', 'emit', 'log', 'fault', 'start', 'life', 'pubx', 'inject'}
if ':' in sys.argv[1] and not os.path.exists(sys.argv[1]):     # PROP:idx[:tier] -> generate that case
    from sim.choice import derive_seed
    parts = sys.argv[1].split(':')
    spec = spec_for(parts[0], parts[2] if len(parts) > 2 else 'quick')
    seed = derive_seed(int(os.environ.get('VERIF_SEED') or 0), parts[0], int(parts[1]))
    res = mqcase.run_case(spec, seed, None, keep_world=True)
    sc = res['scenario']
    for n in sc['order']:
        print('  ', n, json.dumps({k: v for k, v in sc['nodes'][n].items() if not k.startswith('_')}))
    print('  knobs', sc.get('knobs'), 'faults', sc.get('faults'), 'n_frames', sc.get('n_frames'), 'stop', res['stop'])
else:
    body = json.load(open(sys.argv[1]))
    spec = spec_for(body['property'], 'quick')
    res = mqcase.run_case(spec, body.get('seed'), body['replay'], keep_world=True)
w = res['_world']
for e in w.events:
    if e[0] not in kinds:
        continue
    t = (e[2] - EPOCH_NS) / 1e6
    if e[0] == 'in':
        print(f'{e[1]:6} {t:10.3f}ms IN   {e[3]}#{e[4]} k={e[5]} mid={e[6]} ' + str({tp: (fd["o"], fd["n"], fd["r"], (w.tok2pub.get(fd["tok"]) or ("?", "?"))[1]) for tp, fd in e[7].items()}))
    elif e[0] == 'log':
        print(f'{e[1]:6} {t:10.3f}ms LOG  {e[3]}#{e[4]} {e[7][:160]}')
    else:
        print(f'{e[1]:6} {t:10.3f}ms {e[0].upper():5}', *e[3:])
for v in res['violations'][:5]:
    print('VIOL', v['oracle'], v['message'])
