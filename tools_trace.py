"""Debug helper: replay a file and print the event log.  usage: tools_trace.py <replay.json> [kinds,...]"""
import sys, os, json
sys.path.insert(0, os.path.dirname(os.path.abspath(__file__)))
os.environ.setdefault('PYTHONHASHSEED', '0')
import check
check.setup_runtime()
from checks.registry import spec_for
from run import mqcase
from sim.core import EPOCH_NS
body = json.load(open(sys.argv[1]))
kinds = set(sys.argv[2].split(',')) if len(sys.argv) > 2 else {'in', 'pub', 'emit', 'log', 'fault', 'start', 'life', 'pubx', 'inject'}
spec = spec_for(body['property'], 'quick')
res = mqcase.run_case(spec, body.get('seed'), body['replay'], keep_world=True)
w = res['_world']
for e in w.events:
    if e[0] not in kinds:
        continue
    t = (e[2] - EPOCH_NS) / 1e6
    if e[0] == 'in':
        print(f'{e[1]:6} {t:10.3f}ms IN   {e[3]}#{e[4]} k={e[5]} mid={e[6]} ' + str({tp: (fd["o"], fd["n"], fd["r"], (w.tok2pub.get(fd["tok"]) or ("?", "?"))[1]) for tp, fd in e[7].items()}))
    elif e[0] == 'log':
        print(f'{e[1]:6} {t:10.3f}ms LOG  {e[3]}#{e[4]} {e[7][:160]}')
    else:
        print(f'{e[1]:6} {t:10.3f}ms {e[0].upper():5}', *e[3:])
for v in res['violations'][:5]:
    print('VIOL', v['oracle'], v['message'])
