"""Regenerates MANIFEST.json from the table below (keeps it valid and in step with checks/registry.py)."""

import json
import os

HERE = os.path.dirname(os.path.abspath(__file__))

BASELINE_CMD = ("cd /repo && /venv/bin/python -m pytest -ra -q -p no:cacheprovider --timeout=900 "
                "--continue-on-collection-errors --junitxml=/tmp/openfilter-baseline.junit.xml")

TECH = 'deterministic simulation with fault injection (seeded schedules and fault plans over real code, fake zmq/clock/fs)'

MQ_NOTE = ('Real zeromq.py / mq.py / filter.py run unmodified on a modelled libzmq (DESIGN.md 2.4: FIFO pipes, slow joiner, '
           'HWM drops, PUSH backlog) with virtual time; oracles trust the provenance tokens test filters put into Frame.data '
           'and the wire tap of the simulated network. Sampling, not enumeration: a clean batch is evidence, not proof.')

CHECKS = {
    'C01': dict(level='exploration', ref='DESIGN.md 4 C01',
                text='Seeded search over topologies, behaviours, subscription forms, interleavings and fault plans '
                     '(lost publishes, kills/restarts, partitions, delays): every frame set handed to process() of the '
                     'real Filter code is attributed to its publish events and checked for one id, exact topic set per '
                     'source and a single root frame.', note=MQ_NOTE),
    'C02': dict(level='exploration', ref='DESIGN.md 4 C02',
                text='Same runs as C01 (union of all MQ profiles incl. kills, graceful restarts and partitions of either '
                     'side, stale and duplicated requests from the PUSH backlog, consumers that poll like Filter.loop_once '
                     'and consumers that use the MQ API with long receive time-outs, images in C / Fortran / strided '
                     'layout, raw and jpg): per consumer strictly increasing ids also across publisher restarts, '
                     'at-most-once per publish event, byte-exact payload on both sides of the wire tap, topic map and '
                     'hidden-topic rule.', note=MQ_NOTE),
    'C03': dict(level='exploration', ref='DESIGN.md 4 C03',
                text='Fault-free runs under the statement\'s own preconditions; the recorded process() input sequence of '
                     'every filter must equal a functional reference model of the pipeline (world/model.py), element by '
                     'element from frame 0, and deferred results must be evaluated exactly once at the moment of sending.',
                note=MQ_NOTE),
    'C04': dict(level='exploration', ref='DESIGN.md 4 C04',
                text='A synchronized consumer stalls inside process() for 20-60 virtual seconds at a drawn frame (sole '
                     'consumer / one of several / behind relays, relays optionally with sources_timeout, publishers '
                     'optionally bound on two addresses); for every publisher-consumer pair and every interval without '
                     'requests the publishes are bounded by requests still dequeued + 1 and by 9 in absolute terms until '
                     'the connection timeout, and the publishers further upstream through synchronized relays by '
                     '9*(depth+1).', note=MQ_NOTE),
    'C05': dict(level='exploration', ref='DESIGN.md 4 C05',
                text='Synchronized backbone plus ? / ?? listeners that are slow, stalled or killed (incl. the A..G '
                     'ephemeral-rejoin topology): backbone sequences equal the reference model, steady-state inter-arrival '
                     'gaps stay below G < connection timeout, ?? listeners own no request socket and send nothing, '
                     'ephemeral sets are complete and non-decreasing.', note=MQ_NOTE),
    'C06': dict(level='fault_enumeration', ref='DESIGN.md 4 C06',
                text='One fault class per run (kill+restart or graceful restart of each filter with restart delay 0 / '
                     '200 ms / 1.4x timeout, stall or silent death of a non-required consumer, death and return of a '
                     'required one) at drawn scheduling steps, early or after 9-16 s of uptime, in chain / tee / join / '
                     'balance / ephemeral-rejoin topologies with ? and ?? listeners: progress at every live synchronized node within the bound H after the fault ends, '
                     'no later gap beyond H, ordering oracle armed, publisher silent while a required output is dead.',
                note=MQ_NOTE + ' Kill points are sampled (virtual time + step offset), not swept exhaustively.'),
    'C07': dict(level='exploration', ref='DESIGN.md 4 C07',
                text='Balanced split over 2-4 workers of drawn speeds and balanced rejoin (optionally forwarding and '
                     'decimating), optional ?? watchers, and a profile with graceful and hard restarts of workers, splitter '
                     'and rejoin: on the wire each id leaves through exactly one output socket; at the rejoin single-source '
                     'sets, strictly increasing ids, no frame twice, no crash of the rejoin.', note=MQ_NOTE),
    'C08': dict(level='fault_enumeration', ref='DESIGN.md 4 C08',
                text='One ending cause per run (exit()/exception at init/setup/k-th process/shutdown, injected socket error '
                     'on send/recv, stop event, exit_after in three forms) at a drawn filter of chain/tee/rejoin with drawn '
                     'propagate/obey policies per filter: lifecycle automaton, socket census, stop event, outcome, exit '
                     'propagation against a BFS model of the policies (who must end, who must not, and that every ending '
                     'filter puts its announcement on each of its channels), exit_after timing (also with outputs_timeout and '
                     'consumers that stopped asking).',
                note=MQ_NOTE + ' Cause x policy x position space is sampled by seed (quick 1.5k runs), not enumerated. Two '
                     'open known findings (filters deaf to announcements while blocked on the other channel); neighbours of '
                     'the ending filter may run with loop_exc=False.'),
    'C10': dict(level='exploration', ref='DESIGN.md 4 C10',
                text='Seeded operation histories (plus exhaustive enumeration to depth 3 quick / 4 thorough over a reduced '
                     'alphabet) on the real Frame class against an executable reference model of pixels, aliasing, '
                     'writability and jpg cache, checked after every step. Weakest fit for this technique family: no '
                     'clock, fault or scheduler is involved, only history/interleaving of edits and view accesses.',
                note='Real frame.py with cv2/numpy; model trusts cv2.cvtColor / imdecode as ground truth for conversions.',
                technique='seeded history simulation against an executable reference model (no scheduler/faults involved)'),
    'C13': dict(level='exploration', ref='DESIGN.md 4 C13',
                text='One writer, 1-2 readers, an external deleter and a stepping wall clock over a simulated file system; '
                     'seeded operation histories (write with given/equal/backward timestamps, read, read_block, seek, tell, '
                     'refresh, close/reopen, external delete, clock steps; text records with \\r, \\x85, U+2028 and '
                     'multi-byte characters; bin records handed over as bytes, bytearray, memoryview, multi-byte-item arrays or numpy buffers) in all four modes against a list model of '
                     '(file, offset, record): exactly-once in order except for whole deleted files, disk budget, newest '
                     'file kept, no overwrite of an existing file. Thorough adds file-system-call-granularity interleaving '
                     'of writer and reader under the scheduler.',
                note='Real rolllog.py on a simulated POSIX-like FS (sim/fs.py: buffering, unlink-while-open, atomic rename) '
                     'and a virtual clock; process-crash semantics; histories after an unknowable backward clock step '
                     '(all newer files vanished before the writer started) are judged for overwrite/budget only.'),
    'C14': dict(level='fault_enumeration', ref='DESIGN.md 4 C14',
                text='Seeded histories of writes (with pruning), reads and position saves; for every history the reader '
                     'process is crashed at every file-system operation of every save (create temp, write, close, rename, '
                     'before/after each) and at sampled points between reader operations, then restarted (several cycles): '
                     'restart never fails, resumes from the old or the new position, skips nothing still on disk, '
                     're-delivers only the unsaved window.',
                note='Crash points inside saves are enumerated exhaustively per history; the histories are sampled. Process '
                     'crash (completed FS calls persist, Python-level buffers are lost), not power loss.'),
    'C15': dict(level='exploration', ref='DESIGN.md 4 C15',
                text='Each of the 10 filter classes runs its real constructor, normalize_config, init (simulated network, '
                     'real lineage START) and - for Filter, Util, VideoIn, VideoOut, ImageIn - real setup/process with stubbed '
                     'external I/O, on normal and fault paths (exception at setup / process, optionally quoting the URI, '
                     'optionally swallowed by loop_exc=False), with a credentialed URI at a drawn configuration position; two '
                     'run-unique password tokens must not occur in any log record, wire frame or lineage event. Part of this '
                     'is input sampling (the quantifier ranges over configurations); the simulator contributes the observation '
                     'of everything emitted on normal and fault paths.',
                note='vidgear, uvicorn, MQTT broker and the real file system are stubs; Recorder/ImageOut/MQTTOut/REST/Webvis '
                     'run stub setup/process. Open known findings (leak sites not repaired): DESIGN.md 12.2, known_findings.json.'),
    'C18': dict(level='exploration', ref='DESIGN.md 4 C18',
                text='Every ending of C08 with the real OpenFilterLineage attached (capturing client), its heartbeat thread '
                     'a scheduler task so that every Event/Lock/emit interleaving with the run thread is a seeded choice, '
                     'heartbeat interval 1-10 s against run lengths 0.3x-8x, backend latency 0-700 ms and (a third of the '
                     'runs) a backend whose answers get lost (event delivered, emit() raises): START . RUNNING* . exactly '
                     'one terminal, one run id, COMPLETE iff clean.', note=MQ_NOTE + ' OpenLineage transport is a capturing stub.'),
}

NOT_APPLICABLE = {
    'C09': 'pure function of its input (wire codec round trip): no schedule, clock, fault or interleaving to simulate (DESIGN.md 5)',
    'C11': 'pure function of the configuration value (normalize_config / parse_topics / parse_options) (DESIGN.md 5)',
    'C12': 'pure function of the argument list (CLI wiring) (DESIGN.md 5)',
    'C16': 'pure function of (allow-list, metric names); exporter timing cannot change the outcome (DESIGN.md 5)',
    'C17': 'pure function of (image, parameters) (DESIGN.md 5)',
}

PENDING = {}


def build():
    checks = []
    for pid in sorted(CHECKS):
        c = CHECKS[pid]
        checks.append({
            'property_id': pid,
            'quick_cmd': f'./check {pid} quick',
            'thorough_cmd': f'./check {pid} thorough',
            'evidence_file': f'evidence/{pid}.json',
            'replay_cmd_template': './check replay {path}',
            'engine': 'sim',
            'level_claimed': {'category': c['level'], 'text': c['text'], 'design_ref': c['ref']},
            'level_note': c['note'],
            'technique': c.get('technique', TECH),
        })
    na = [{'property_id': k, 'reason': v} for k, v in sorted({**NOT_APPLICABLE, **PENDING}.items()) if k not in CHECKS]
    return {
        'version': 1,
        'setup_cmd': '/venv/bin/python -m compileall -q sim world run checks selftest check.py && ./check selftest seams',
        'hooks': {
            'guard': 'PLAINSIGHTAI_OPENFILTER_VERIF',
            'enable': 'none needed: every seam is a module-level name rebound at run time by sim/patch.py; no source hook exists',
            'baseline_off_cmd': BASELINE_CMD,
            'source_commits': [],
            'add_only': True,
        },
        'engines': [{
            'name': 'sim', 'path': 'sim/', 'serves_properties': sorted(CHECKS),
            'kind_free_text': 'deterministic simulator: baton-passing real threads under a seeded scheduler, virtual '
                              'time, simulated ZeroMQ network / threading / file system, fault injection, replay files',
        }],
        'checks': checks,
        'not_applicable': na,
        'notes': 'See DESIGN.md. Exit codes: 0 held, 1 VIOLATION (replay file), 2 harness error.',
    }


if __name__ == '__main__':
    m = build()
    with open(os.path.join(HERE, 'MANIFEST.json'), 'w') as f:
        json.dump(m, f, indent=1)
    print('checks:', [c['property_id'] for c in m['checks']], 'n/a:', [n['property_id'] for n in m['not_applicable']])
