"""Regenerates MANIFEST.json from the table below (keeps it valid and in step with checks/registry.py)."""

import json
import os

HERE = os.path.dirname(os.path.abspath(__file__))

BASELINE_CMD = ("cd /repo && /venv/bin/python -m pytest -ra -q -p no:cacheprovider --timeout=900 "
                "--continue-on-collection-errors --junitxml=/tmp/openfilter-baseline.junit.xml")

TECH = 'deterministic simulation with fault injection (seeded schedules and fault plans over real code, fake zmq/clock/fs)'

CHECKS = {
    'C01': dict(level='exploration', ref='DESIGN.md 4 C01',
                text='Seeded search over topologies, behaviours, subscription forms, interleavings and fault plans '
                     '(lost publishes, kills/restarts, partitions, delays): every frame set handed to process() of the '
                     'real Filter code is attributed to its publish events and checked for one id, exact topic set per '
                     'source and a single root frame. A clean batch is evidence on the explored executions, not proof.',
                note='Real zeromq.py/mq.py/filter.py on a modelled libzmq (DESIGN.md 2.4); oracle trusts the provenance '
                     'tokens that test filters put into Frame.data and the wire tap of the fake network.'),
}

NOT_APPLICABLE = {
    'C09': 'pure function of its input (wire codec round trip): no schedule, clock, fault or interleaving to simulate (DESIGN.md 5)',
    'C11': 'pure function of the configuration value (normalize_config / parse_topics / parse_options) (DESIGN.md 5)',
    'C12': 'pure function of the argument list (CLI wiring) (DESIGN.md 5)',
    'C16': 'pure function of (allow-list, metric names); exporter timing cannot change the outcome (DESIGN.md 5)',
    'C17': 'pure function of (image, parameters) (DESIGN.md 5)',
}

PENDING = {pid: 'check still under construction in this build (claimed in DESIGN.md; will move to checks[] when its machinery is committed)'
           for pid in ('C02', 'C03', 'C04', 'C05', 'C06', 'C07', 'C08', 'C10', 'C13', 'C14', 'C15', 'C18')}


def build():
    checks = []
    for pid in sorted(CHECKS):
        c = CHECKS[pid]
        checks.append({
            'property_id': pid,
            'quick_cmd': f'./check {pid} quick',
            'thorough_cmd': f'./check {pid} thorough',
            'evidence_file': f'evidence/{pid}.json',
            'replay_cmd_template': './check replay {path}',
            'engine': 'sim',
            'level_claimed': {'category': c['level'], 'text': c['text'], 'design_ref': c['ref']},
            'level_note': c['note'],
            'technique': c.get('technique', TECH),
        })
    na = [{'property_id': k, 'reason': v} for k, v in sorted({**NOT_APPLICABLE, **PENDING}.items()) if k not in CHECKS]
    return {
        'version': 1,
        'setup_cmd': '/venv/bin/python -m compileall -q sim world run checks selftest check.py && ./check selftest seams',
        'hooks': {
            'guard': 'PLAINSIGHTAI_OPENFILTER_VERIF',
            'enable': 'none needed: every seam is a module-level name rebound at run time by sim/patch.py; no source hook exists',
            'baseline_off_cmd': BASELINE_CMD,
            'source_commits': [],
            'add_only': True,
        },
        'engines': [{
            'name': 'sim', 'path': 'sim/', 'serves_properties': sorted(CHECKS),
            'kind_free_text': 'deterministic simulator: baton-passing real threads under a seeded scheduler, virtual '
                              'time, simulated ZeroMQ network / threading / file system, fault injection, replay files',
        }],
        'checks': checks,
        'not_applicable': na,
        'notes': 'See DESIGN.md. Exit codes: 0 held, 1 VIOLATION (replay file), 2 harness error.',
    }


if __name__ == '__main__':
    m = build()
    with open(os.path.join(HERE, 'MANIFEST.json'), 'w') as f:
        json.dump(m, f, indent=1)
    print('checks:', [c['property_id'] for c in m['checks']], 'n/a:', [n['property_id'] for n in m['not_applicable']])
