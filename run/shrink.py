"""Minimisation of a failing case: structural reducers on the scenario / history first, then delta debugging over the
recorded choice streams. A candidate is kept only if the *same oracle of the same property* fails again."""

import copy


def _same(res, v):
    for x in res.get('violations') or []:
        if x['property'] == v['property'] and x['oracle'] == v['oracle']:
            return True
    return False


def minimise(spec, res, v, max_runs=300, max_wall_s=90):
    import time as _t
    t_stop = _t.time() + max_wall_s
    seed = res.get('seed')
    best = res
    best_payload = spec.replay_payload(res)
    runs = 0

    def attempt(payload):
        nonlocal runs, best, best_payload
        if runs >= max_runs or _t.time() > t_stop:
            runs = max(runs, max_runs)
            return False
        runs += 1
        try:
            r = spec.run_case(seed, payload)
        except Exception:
            return False
        if r.get('harness_errors'):
            return False
        if _same(r, v):
            best = r
            best_payload = spec.replay_payload(r)
            return True
        return False

    # make sure the replay payload itself reproduces (it must: same choices)
    if not attempt(copy.deepcopy(best_payload)):
        return res, runs

    progress = True
    rounds = 0
    while progress and runs < max_runs and rounds < 6:
        progress = False
        rounds += 1
        # structural reducers
        again = True
        while again and runs < max_runs:
            again = False
            for cand in spec.reducers(copy.deepcopy(best_payload)):
                if attempt(cand):
                    again = progress = True
                    break
        # choice streams
        streams = best_payload.get('streams') or {}
        for name in sorted(streams):
            vals = best_payload['streams'].get(name) or []
            if not any(vals):
                continue
            # all zero
            cand = copy.deepcopy(best_payload)
            cand['streams'][name] = []
            if attempt(cand):
                progress = True
                continue
            # zero blocks, halving
            size = max(1, len(vals) // 2)
            while size >= 1 and runs < max_runs:
                vals = best_payload['streams'].get(name) or []
                i = 0
                changed = False
                while i < len(vals) and runs < max_runs:
                    if any(vals[i:i + size]):
                        cand = copy.deepcopy(best_payload)
                        cv = cand['streams'][name]
                        cv[i:i + size] = [0] * len(cv[i:i + size])
                        if attempt(cand):
                            progress = changed = True
                            vals = best_payload['streams'].get(name) or []
                    i += size
                if size == 1:
                    break
                size //= 2
                if size < max(1, len(vals) // 64):
                    break
    return best, runs
