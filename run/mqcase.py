"""One simulated MQ-world case: generate (or take from a replay file) a scenario, run it, evaluate a property's
oracles, and return a JSON-able result."""

import time as _wall

from sim.choice import ChoiceSource, derive_seed
from sim.core import EPOCH_NS
from world import gen as G
from world.mq import MQWorld, MS, SEC


def default_stop(world):
    sc = world.sc
    src_ids = [nid for nid in sc['order'] if sc['nodes'][nid].get('src')]
    settle = sc.get('settle_ns', 1500 * MS)
    t_last_fault = max([f.get('at_ns', 0) + f.get('dur_ns', 0) + (f.get('restart_after_ns') or 0)
                        for f in sc.get('faults') or []] or [0])
    nstart = max([sc['nodes'][n].get('start_delay_ns', 0) for n in sc['order']] or [0])

    def stop_when():
        now = world.sched.now
        if now - EPOCH_NS < max(t_last_fault, nstart) + settle:
            return None
        for nid in src_ids:
            p = world.live_proc(nid)
            if p is None:
                continue
            st = world.states[p]
            if not p.exited and st.k < st.spec.get('n_frames', sc['n_frames']):
                return None
        if world.net.pending_connections():
            return None          # a connection is still being established: the pipeline is not quiet yet
        lt = world.last_activity_ns
        if now - max(lt, world.net.last_change_ns) > settle:
            return 'settled'
        return None

    return stop_when


def run_case(spec, seed, replay=None, *, keep_world=False):
    """spec: a property's check spec (see checks/*.py): has .prop, .profiles(tier), .oracle(world), .prepare(sc),
    .world_class. replay: dict from a replay file or None."""
    t0 = _wall.perf_counter()
    if replay is not None:
        ch = ChoiceSource(replay=replay['streams'])
        sc = replay['scenario']
    else:
        ch = ChoiceSource(seed)
        profs = spec.profiles
        prof = profs[ch.weighted('gen', [w for _, w in profs])][0] if len(profs) > 1 else profs[0][0]
        sc = spec.generate(ch, prof)
    wcls = getattr(spec, 'world_class', MQWorld)
    world = wcls(sc, ch)
    world.stop_when = spec.stop(world) if hasattr(spec, 'stop') else default_stop(world)
    reason = world.run()
    violations = spec.oracle(world)
    res = {
        'seed': seed,
        'scenario': sc,
        'streams': ch.export(),
        'digest': world.sched.digest.hex(),
        'stop': reason,
        'steps': world.sched.step,
        'vtime_s': (world.sched.now - EPOCH_NS) / 1e9,
        'n_in': world.n_in,
        'violations': violations,
        'faults_fired': dict(world.faults_fired),
        'net': dict(world.net.stats),
        'ostats': dict(world.ostats),
        'harness_errors': list(world.harness_errors),
        'outcomes': {f'{k[0]}#{k[1]}': v for k, v in world.outcomes.items()},
        'wall_s': _wall.perf_counter() - t0,
        'probes': spec.probes(world) if hasattr(spec, 'probes') else {},
        'trace_tail': [list(x) for x in world.sched.trace[-120:]] if violations else None,
    }
    if keep_world:
        res['_world'] = world
    return res
