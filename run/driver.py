"""Batch driver: runs many seeded cases of one property on a fork pool, classifies violations against
known_findings.json, minimises and replays unknown ones, and writes the evidence file.

Exit codes: 0 property held on everything explored (known findings are printed as KNOWN-FINDING lines);
            1 a violation not listed as an open known finding (line `VIOLATION property=<id> replay=<path>`);
            2 harness error (missing seam, stray thread, worker death, failure that does not replay).
"""

import concurrent.futures as cf
import faulthandler
import hashlib
import json
import multiprocessing as mp
import os
import subprocess
import sys
import time
import traceback

from sim.choice import derive_seed

VERIF = os.path.dirname(os.path.dirname(os.path.abspath(__file__)))
_OUT = os.environ.get('VERIF_OUT') or VERIF      # self-tests on mutated copies write elsewhere
EVIDENCE_DIR = os.path.join(_OUT, 'evidence')
REPLAY_DIR = os.path.join(_OUT, 'replays')
KNOWN_FILE = os.path.join(VERIF, 'known_findings.json')

CASE_WALL_CAP_S = 120

_SPEC = None


def _worker_init():
    faulthandler.enable()


def _run_chunk(args):
    prop_seed, idxs, want_samples = args
    spec = _SPEC
    out = []
    for idx in idxs:
        seed = derive_seed(prop_seed, spec.prop, idx)
        faulthandler.dump_traceback_later(CASE_WALL_CAP_S, exit=True)
        try:
            try:
                res = spec.run_case(seed, None)
            except Exception:
                res = {'seed': seed, 'harness_errors': [traceback.format_exc()], 'violations': [], 'digest': None,
                       'nontrivial': False}
        finally:
            faulthandler.cancel_dump_traceback_later()
        res['idx'] = idx
        keep_full = bool(res.get('violations')) or bool(res.get('harness_errors')) or idx in want_samples
        if not keep_full:
            for k in ('scenario', 'streams', 'trace_tail', 'outcomes', 'history'):
                res.pop(k, None)
        res.pop('_world', None)
        out.append(res)
    return out


def load_known():
    try:
        with open(KNOWN_FILE) as f:
            return json.load(f)
    except FileNotFoundError:
        return []


def match_known(v, known):
    """An open finding matches when property and oracle agree and every signature field listed in the finding equals
    the violation's."""
    for kf in known:
        if kf.get('status') != 'open' or kf.get('property') != v['property']:
            continue
        if kf.get('oracle') not in (None, v['oracle']):
            continue
        sig = kf.get('signature') or {}
        vs = v.get('signature') or {}
        if all(vs.get(k) == val for k, val in sig.items()):
            return kf
    return None


def vkey(v):
    return (v['property'], v['oracle'], json.dumps(v.get('signature') or {}, sort_keys=True))


class Batch:
    def __init__(self, spec, tier, seed):
        self.spec = spec
        self.tier = tier
        self.seed = seed
        self.t0 = time.time()
        self.n = 0
        self.digests = set()
        self.n_nontrivial = 0
        self.sums = {}
        self.samples = []
        self.viol = {}           # vkey -> (first result idx, violation, result)
        self.n_violating = 0
        self.harness = []
        self.vtime = 0.0
        self.steps = 0

    def add(self, res):
        self.n += 1
        if res.get('harness_errors'):
            self.harness.append((res['idx'], res['harness_errors'][0]))
        nt = res.get('nontrivial')
        if nt is None:
            nt = self.spec.nontrivial(res)
        if nt and res.get('digest'):
            self.n_nontrivial += 1
            self.digests.add(res['digest'])
        self.vtime += res.get('vtime_s', 0.0)
        self.steps += res.get('steps', 0)
        for group in ('faults_fired', 'net', 'ostats', 'probes'):
            d = res.get(group)
            if d:
                g = self.sums.setdefault(group, {})
                for k, v in d.items():
                    if isinstance(v, (int, float)):
                        g[k] = max(g.get(k, 0), v) if k.endswith('_max') else g.get(k, 0) + v
        if res.get('violations'):
            self.n_violating += 1
            for v in res['violations']:
                k = vkey(v)
                if k not in self.viol or res['idx'] < self.viol[k][0]:
                    self.viol[k] = (res['idx'], v, res)
        if 'scenario' in res or 'history' in res:
            if len(self.samples) < 3 and not res.get('violations'):
                self.samples.append(self.spec.sample_of(res))


def run_batch(spec, tier, seed, n_cases, wall_budget_s, workers=None):
    global _SPEC
    _SPEC = spec
    workers = workers or int(os.environ.get('VERIF_WORKERS') or min(16, os.cpu_count() or 1))
    batch = Batch(spec, tier, seed)
    chunk = max(1, min(spec.chunk, n_cases // (workers * 4) or 1))
    chunks = [list(range(i, min(i + chunk, n_cases))) for i in range(0, n_cases, chunk)]
    want_samples = {0, 1, 2, 3, 4, 5}
    deadline = batch.t0 + wall_budget_s
    if workers <= 1:
        for c in chunks:
            for r in _run_chunk((seed, c, want_samples)):
                batch.add(r)
            if time.time() > deadline:
                break
        return batch
    ctx = mp.get_context('fork')
    with cf.ProcessPoolExecutor(max_workers=workers, mp_context=ctx, initializer=_worker_init) as ex:
        pending = set()
        it = iter(chunks)
        exhausted = False
        try:
            while True:
                while not exhausted and len(pending) < workers * 2 and time.time() < deadline:
                    try:
                        c = next(it)
                    except StopIteration:
                        exhausted = True
                        break
                    pending.add(ex.submit(_run_chunk, (seed, c, want_samples)))
                if not pending:
                    break
                done, pending = cf.wait(pending, timeout=CASE_WALL_CAP_S * 2, return_when=cf.FIRST_COMPLETED)
                if not done:
                    batch.harness.append((-1, 'worker pool made no progress'))
                    break
                for fut in done:
                    for r in fut.result():
                        batch.add(r)
                if time.time() >= deadline:
                    exhausted = True
        except cf.process.BrokenProcessPool as exc:
            batch.harness.append((-1, f'worker died: {exc}'))
        finally:
            for fut in pending:
                fut.cancel()
    return batch


def write_replay(spec, res, violation, minimised_from=None):
    os.makedirs(REPLAY_DIR, exist_ok=True)
    body = {
        'property': spec.prop,
        'seed': res.get('seed'),
        'violation': violation,
        'digest': res.get('digest'),
        'replay': spec.replay_payload(res),
        'human': spec.human(res),
        'minimised_from': minimised_from,
    }
    blob = json.dumps(body, sort_keys=True, default=str)
    h = hashlib.sha1(blob.encode()).hexdigest()[:10]
    path = os.path.join(REPLAY_DIR, f'{spec.prop}-{res.get("seed")}-{h}.json')
    with open(path, 'w') as f:
        json.dump(body, f, indent=1, default=str)
    return path


def replay_file(spec, path):
    with open(path) as f:
        body = json.load(f)
    res = spec.run_case(body.get('seed'), body['replay'])
    return body, res


def verify_replay_fresh(path):
    """Re-execute the replay file in a fresh interpreter; it must reproduce violation and digest."""
    p = subprocess.run([sys.executable, os.path.join(VERIF, 'check.py'), 'replay', path, '--quiet'],
                       capture_output=True, text=True, timeout=600, cwd=VERIF)
    return p.returncode == 1 and 'REPRODUCED' in p.stdout, p.stdout[-2000:] + p.stderr[-2000:]


def finish(spec, batch, tier, seed, level, extra_cov=None):
    """Classify, minimise, report, write evidence; returns the exit code."""
    known = load_known()
    known_hits = {}
    unknown = []
    for k, (idx, v, res) in sorted(batch.viol.items(), key=lambda kv: kv[1][0]):
        kf = match_known(v, known)
        if kf is not None:
            known_hits.setdefault(kf.get('what', kf.get('oracle')), (kf, v))
        else:
            unknown.append((idx, v, res))
    code = 0
    lines = []
    for what, (kf, v) in known_hits.items():
        lines.append(f'KNOWN-FINDING: property={spec.prop} {what}')
    harness_fail = bool(batch.harness)
    reported = []
    # (seeded-change regressions report one violation and minimise briefly: VERIF_MAX_REPORT / VERIF_MINIMISE_S)
    for idx, v, res in unknown[:int(os.environ.get('VERIF_MAX_REPORT') or 3)]:
        try:
            from run.shrink import minimise
            small, nrun = minimise(spec, res, v, max_wall_s=float(os.environ.get('VERIF_MINIMISE_S') or 90))
        except Exception:
            small, nrun = res, 0
            lines.append('note: minimisation failed: ' + traceback.format_exc(limit=2))
        # report the violation that made this case unknown, not a listed finding that happens to share its oracle
        v2 = (next((x for x in small['violations'] if vkey(x) == vkey(v)), None)
              or next((x for x in small['violations'] if x['oracle'] == v['oracle'] and match_known(x, known) is None), None)
              or next((x for x in small['violations'] if x['oracle'] == v['oracle']), small['violations'][0]))
        path = write_replay(spec, small, v2, minimised_from={'case_idx': idx, 'seed': res.get('seed'),
                                                            'reruns': nrun})
        ok, outp = verify_replay_fresh(path)
        if not ok:
            harness_fail = True
            lines.append(f'HARNESS-ERROR: violation {v["oracle"]} of case {idx} did not replay from {path}: {outp[-400:]}')
            continue
        code = 1
        reported.append(path)
        lines.append(f'VIOLATION property={spec.prop} replay={path}')
        lines.append(f'  oracle={v2["oracle"]} {v2["message"][:400]}')
    if harness_fail:
        for idx, msg in batch.harness[:5]:
            lines.append(f'HARNESS-ERROR: case {idx}: {str(msg)[-600:]}')
        if code == 0:
            code = 2
    wall = time.time() - batch.t0
    ev = {
        'property_id': spec.prop,
        'tier': tier,
        'seed': seed,
        'level': level,
        'coverage': {
            'evaluations': batch.n,
            'distinct_nontrivial': len(batch.digests),
            'rule': spec.rule,
            'samples': batch.samples[:3] or [{'note': 'no sample retained'}],
            'nontrivial_runs': batch.n_nontrivial,
            'runs_per_hour': int(batch.n / max(wall, 1e-6) * 3600),
            'simulated_seconds': round(batch.vtime, 3),
            'scheduling_steps': batch.steps,
            'faults_fired': batch.sums.get('faults_fired', {}),
            'network': batch.sums.get('net', {}),
            'oracle_counters': batch.sums.get('ostats', {}),
            'probes': batch.sums.get('probes', {}),
            'violating_runs': batch.n_violating,
            'known_findings_matched': sorted(known_hits),
            'real_code': spec.real_code,
            'stubs': spec.stubs,
            'workers': int(os.environ.get('VERIF_WORKERS') or min(16, os.cpu_count() or 1)),
        },
        'assumptions': spec.assumptions,
        'wall_s': round(wall, 2),
        'violations': len(unknown),
    }
    if extra_cov:
        ev['coverage'].update(extra_cov)
    validate_evidence(ev)
    os.makedirs(EVIDENCE_DIR, exist_ok=True)
    with open(os.path.join(EVIDENCE_DIR, f'{spec.prop}.json'), 'w') as f:
        json.dump(ev, f, indent=1, default=str)
    print(f'[{spec.prop} {tier}] cases={batch.n} nontrivial={batch.n_nontrivial} distinct={len(batch.digests)} '
          f'violating_runs={batch.n_violating} unknown_violation_kinds={len(unknown)} wall={wall:.1f}s '
          f'sim_time={batch.vtime:.0f}s steps={batch.steps}')
    for ln in lines:
        print(ln)
    sys.stdout.flush()
    return code


def validate_evidence(ev):
    for k in ('property_id', 'tier', 'seed', 'level', 'coverage', 'wall_s'):
        if k not in ev:
            raise ValueError(f'evidence lacks {k}')
    cov = ev['coverage']
    if ev['level'] in ('exploration', 'fault_enumeration'):
        if not (isinstance(cov.get('evaluations'), int) and cov['evaluations'] >= 1):
            raise ValueError('evidence: evaluations')
        if not isinstance(cov.get('distinct_nontrivial'), int):
            raise ValueError('evidence: distinct_nontrivial')
        if not isinstance(cov.get('rule'), str) or not cov.get('samples'):
            raise ValueError('evidence: rule/samples')
    json.dumps(ev, default=str)
