#!/bin/sh
# run every claimed check at the given tier (default quick); prints one summary line per property
cd "$(dirname "$0")" || exit 2
tier="${1:-quick}"
rc=0
for p in $(/venv/bin/python -c "import json; print(' '.join(c['property_id'] for c in json.load(open('MANIFEST.json'))['checks']))"); do
  ./check "$p" "$tier" 2>/dev/null | grep -v OpenLineage | cut -c1-240
  r=$?
done
