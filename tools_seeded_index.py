"""Copies the confirmed seeded changes from the sub-agents' delivery dirs (/tmp/mut_<id>) into seeded/<id>/ with a
meta.json and writes seeded/INDEX.md. Usage: tools_seeded_index.py [tests-log]"""

import json
import os
import re
import shutil
import sys

HERE = os.path.dirname(os.path.abspath(__file__))

# id: (property, caught by [checks], strengthened?, needs-to-manifest, what the check reported)
T = {
 'C01_2': ('C01', ['C01', 'C03'], '', 'explicit/remapped subscription with >=2 topics on one synchronized source whose topic set varies per frame; the pruned topic must not arrive first',
           'C01 quick: partial_set / missing_source in 264 runs; C03: sequence_mismatch in 419 runs'),
 'C02_1': ('C02', ['C02', 'C01', 'C03'], '', 'by-name subscription + a publisher that also emits a topic whose NAME STARTS WITH the subscribed name (main / main_crop) arriving before the subscribed set is complete',
           'C02 quick: unsubscribed_delivered in 23 runs; C01 extra_topics; C03 sequence_mismatch'),
 'C02_2': ('C02', ['C02'], 'C02 ordering is now checked across publisher restarts (was per publisher incarnation only)',
           'a consumer that mixes recv(state) and recv(None) (its process() returned None between two receives) + a publisher restart while it sits in the state-less recv: an id already consumed is delivered again',
           'C02 quick: duplicate_id_across_restart'),
 'C03_1': ('C03', ['C03'], '', 'join / tee-rejoin, one branch returning {} (complete empty set) and the sibling later than the 100 ms request interval: the empty source stays registered, its next message invalidates the sibling',
           'C03 quick: sequence_mismatch / deferred_never in 200 runs'),
 'C03_2': ('C03', ['C03'], 'test filters now return {} also THROUGH a deferred callable (model updated)',
           'a deferred (callable) result that evaluates to {}: turned into None, nothing published, downstream misses the empty set',
           'C03 quick: deferred_early / sequence_mismatch'),
 'C04_1': ('C04', ['C04'], 'C04 takes "is this request channel synchronized" from the configuration instead of the eph flag on the wire; stalling consumer may list an ephemeral source first',
           'consumer with mixed sources, the ephemeral one listed BEFORE the synchronized one: its requests to the synchronized producer carry the eph marker, the producer stops waiting for it',
           'C04 quick: unbounded_publish (997 frames in the 5 s window)'),
 'C04_2': ('C04', ['C04'], '', 'connection older than ZMQ_CONN_TIMEOUT, several consumers, one stalls while another keeps requesting: t_last is never refreshed, the live consumer\'s next request prunes the stalled one at once',
           'C04 quick: unbounded_publish in 394 runs'),
 'C05_1': ('C05', ['C04'], 'C04/C05 generate a filter attached to ONE publisher twice (synchronized + ephemeral); per-source-entry attribution in all oracles. C05 itself does not separate it from the open twice-attached finding',
           'one filter attached to the same publisher twice (synchronized for one topic, ? for another) + a faster synchronized consumer: the two connections share one client record, the eph request wins',
           'C04 quick: unbounded_publish in 34 runs; C05 quick: only the known twice-attached finding'),
 'C05_2': ('C05', ['C05'], '', 'multi-topic ephemeral source joined with another source, the other source completing while only some topics of the ephemeral publisher\'s current frame have arrived',
           'C05 quick: ephemeral_incomplete'),
 'C06_1': ('C06', ['C06'], '', 'one frame lost on the PUB->SUB connection of a synchronized consumer while its request connection works (blip, or upstream restart with PUSH back before SUB): repeated request ignored as duplicate -> wedged for good',
           'C06 quick: no_progress / stuck in 46 runs'),
 'C06_2': ('C06', ['C06'], '', 'kill+restart of the faster branch of a diamond landing between the two branches\' deliveries: the join never polls the other source again',
           'C06 quick: no_progress in 173 runs'),
 'C07_1': ('C07', ['C07', 'C06'], 'C07 gained the rejoin_crashed oracle; C06 gained the balance shape',
           'two branch sockets readable in the same poll() result with the second carrying the newer id: stale batch entry processed after the balanced-sources lock -> KeyError / wedged joiner',
           'C07 quick: rejoin_crashed in 235 runs; C06 quick: no_progress'),
 'C07_2': ('C07', ['C07', 'C02'], 'balanced rejoin may now forward (has outputs) and drop frames itself',
           'sources_balance joiner WITH outputs whose process() returns None for some frame + an older frame of a slower branch waiting: stale threshold accepts the older frame after the newer one',
           'C07 quick: order (id 3 after id 4) in 38 runs; C02 quick: duplicate_id_across_restart'),
 'C08_1': ('C08', ['C08'], 'C08 checks start-up exits too: a filter that READ the announcement from its socket must obey',
           'exit announcement travelling upstream from a downstream that never had a frame request accepted (exception/exit() in its setup(), death during handshake, ?? listener): OOB from untracked connections ignored',
           'C08 quick: did_not_obey (announcement_read)'),
 'C08_2': ('C08', ['C08'], '', 'exception in setup() or shutdown(): run() still raises but neighbours are told "clean"; needs a policy that distinguishes the kinds',
           'C08 quick: ended_unexpectedly / did_not_obey in 100 runs'),
 'C10_1': ('C10', ['C10'], '', 'writable frame: ro_bgr, edit in place, ro_bgr again (this is the repaired defect re-introduced)',
           'C10 quick: stale_view in 300 histories'),
 'C10_2': ('C10', ['C10'], 'relabel (Frame(frame, format=...)) added to the exhaustive alphabet and weighted up in the generator',
           'read-only colour frame whose .gray was read, then Frame(f, format=<other order>): the new frame inherits the cached gray view computed for the other channel order',
           'C10 quick: stale_view (gray of relabelled frame) in 6 histories'),
 'C13_1': ('C13', ['C13'], '', 'roll-over with a timestamp lower than an existing file\'s (given timestamps step back / clock steps back): new file sorts before older ones',
           'C13 quick: lost_record / order in 23204 histories'),
 'C13_2': ('C13', ['C13'], '', 'read/write log with small total_size, own reader part-way through file k, a write pruning exactly files 0..k-1: handle closed although file survives -> records returned twice',
           'C13 quick: duplicate / order in 10080 histories'),
 'C14_1': ('C14', ['C14'], '', 'reader killed between rename and close of the head temp file (buffered bytes not yet flushed): empty head file, restart fails',
           'C14 quick: corrupt_head in 11333 histories (needs the simulated FS\'s Python-level write buffering)'),
 'C14_2': ('C14', ['C14'], '', 'reader saved while fully caught up at the end of the newest file, restarted before the writer appends to that same file: resumes past it, appended records skipped',
           'C14 quick: skipped_record in 1687 histories'),
 'C15_1': ('C15', ['C15'], '', 'password containing an unescaped / ? or #', 'C15 quick: leak_log (1350 runs)'),
 'C15_2': ('C15', ['C15'], '', 'filter constructed from a plain dict whose normalize_config() raises while the config carries a credentialed URI', 'C15 quick: leak_log config_line_after_normalize_error'),
 'C18_1': ('C18', ['C18'], 'C18 terminal oracle is strict (stop event / interrupted -> ABORT)', 'stop event landing while the filter is idle on the network: exit() from the poll loops emits COMPLETE, the later ABORT is swallowed',
           'C18 quick: wrong_terminal in 123 runs'),
 'C18_2': ('C18', ['C18'], '', 'run ends while a heartbeat is between its terminated-check and client.emit(): RUNNING after the terminal event',
           'C18 quick: event_after_terminal in 32 runs (interleaving found at the emit yield point)'),
}


# second round (same brief, different mechanisms asked for); delivered under /tmp/mut2_<id>
T2 = {
 'C01_1': ('C01', ['C01'], '', 'join/tee-rejoin: the receiver has read only SOME topics of source B2\'s id N when source B1 delivers an id above N; B2\'s partial buffer is no longer reset and its leftover slot is not overwritten by the next id (topic absent there / publish lost)',
           'C01 quick: mixed_ids / partial_set in 8 runs'),
 'C01_2': ('C01', ['C01', 'C03'], '', 'explicit list of >=2 topics on a synchronized source + an id newer than expected under which the source publishes none of the subscribed topics: the subscription TEMPLATE is trimmed for good',
           'C01 quick: partial_set; C03 quick: extra_sets / sequence_mismatch'),
 'C02_1': ('C02', ['C02'], 'C02/C01 profiles gained consumers that use the MQ API directly with long / no receive time-out and a graceful-restart fault (clean shutdown with CLOSE, new incarnation on the same address)',
           'a publisher shut down CLEANLY (CLOSE message) and restarted, with the CLOSE and the new publisher\'s first frame read inside one long recv() call of a consumer with a single synchronized source (Filter.loop_once\'s 100 ms polling hides it)',
           'C02 quick: order_across_restart / duplicate_id_across_restart'),
 'C02_2': ('C02', ['C02'], 'test images now also come Fortran-ordered / strided / as views; send-side image oracle (wire vs emitted pixels); the fake zmq puts a buffer\'s MEMORY on the wire like libzmq',
           'raw (non-jpg) output of an F-contiguous image (gray.T, np.asfortranarray): sent in memory order, reshaped in C order by the receiver - pixels permuted, nothing raises',
           'C02 quick: image_altered_on_send'),
 'C03_1': ('C03', ['C03', 'C01'], '', 'explicit subscription with >=2 topics + publisher returning None for frame k and {} for frame k+1: the per-source template is aliased and emptied',
           'C03 quick: extra_sets / sequence_mismatch in 28 runs; C01 quick: partial_set / missing_source'),
 'C03_2': ('C03', ['C03', 'C02'], '', 'explicit subscription + a publisher topic whose name starts with a subscribed name (SUBSCRIBE prefix without closing delimiter)',
           'C03 quick: sequence_mismatch; C02 quick: unsubscribed_delivered'),
 'C04_1': ('C04', ['C04'], '', 'two live synchronized consumers sharing a client_id on one producer (replicas): they evict each other on every request; one stalls, the other keeps taking',
           'C04 quick: unbounded_publish in 36 runs'),
 'C04_2': ('C04', ['C04'], '', 'consumer listing an ephemeral source before a synchronized one (eph flag leaks between requests) + a second consumer that keeps requesting',
           'C04 quick: unbounded_publish in 124 runs'),
 'C05_1': ('C05', ['C04'], '', 'as C04-r2-2 (eph flag leaks to a later synchronized source): the producer registers the mixed receiver as ephemeral and runs ahead',
           'C04 quick: unbounded_publish in 145 runs; C05 quick: nothing beyond the known findings'),
 'C05_2': ('C05', ['C05'], '', 'receiver with >=2 sources, one ephemeral and multi-topic; another source completes between the ephemeral publisher\'s per-topic messages',
           'C05 quick: ephemeral_incomplete'),
 'C06_1': ('C06', ['C06'], '', 'diamond: the join is killed after A\'s frame reached it but before B\'s; after restart B\'s older id arrives first, then A\'s newer: the invalidated complete source is never polled again',
           'C06 quick: no_progress in 172 runs'),
 'C06_2': ('C06', ['C06'], '', 'outputs_balance publisher, a worker (re)connecting while another worker\'s request is always waiting: its new requests are swallowed, no HELLO, never registered',
           'C06 quick (balance shape): no_progress at the restarted worker'),
 'C07_1': ('C07', ['C07'], '', 'two balanced branches with a frame pending at the same time, the older examined first: lock skipped for single-topic frames, both merged (duplicate topic RuntimeError or silent mix)',
           'C07 quick: rejoin_crashed in 831 runs'),
 'C07_2': ('C07', ['C07'], '', 'as C07-2 (prev_id only kept without state) on a forwarding, frame-dropping balanced rejoin',
           'C07 quick: order (id 3 after id 4)'),
 'C08_1': ('C08', ['C08'], '', 'downstream ending before it ever requested a frame (exit()/exception in setup()): its exit announcement is ignored by the upstream',
           'C08 quick: did_not_obey (announcement_read) in 61 runs'),
 'C08_2': ('C08', ['C08'], '', '>=3 filters in a line + non-default policies: a relayed error exit is re-announced as clean (exception already swallowed when the kind is read)',
           'C08 quick: did_not_obey / ended_unexpectedly in 87 runs'),
 'C10_1': ('C10', ['C10'], '', 'as C10-2 (Frame(frame) inherits cached conversions, then format relabel)', 'C10 quick: stale_view (gray of relabelled frame)'),
 'C10_2': ('C10', ['C10'], '', 'from_jpg / from_blob WITHOUT dimensions: eager decode leaves the image writable while the jpg stays cached', 'C10 quick: wrong_writability / jpg_on_writable in 8615 histories'),
 'C13_1': ('C13', ['C13', 'C14'], '', 'reader position (head file or tell) in a file that retention then prunes: seek() parks the reader at the end of all logs, surviving records lost',
           'C13 quick: lost_record in 3823 histories; C14 quick: skipped_record'),
 'C13_2': ('C13', ['C13'], '', 'total_size not a multiple of file_size + an appending write that crosses the budget without creating or filling a file: no prune until roll-over',
           'C13 quick: budget in 14628 histories'),
 'C14_1': ('C14', ['C14'], '', 'as C14-1 (rename before the temp head file is flushed)', 'C14 quick: corrupt_head'),
 'C14_2': ('C14', ['C14'], '', 'head pointing into a file (offset > 0) that was pruned while the reader was down, newer files exist: stale offset applied to the oldest surviving file',
           'C14 quick: skipped_record / torn in 2715 histories'),
 'C15_1': ('C15', ['C15'], '', 'the same nested containers reaching the deep mask a second time (config log line, then lineage START facets): process-wide "seen" set returns them unmasked',
           'C15 quick: leak_lineage in 2500 runs'),
 'C15_2': ('C15', ['C15'], 'log capture now includes the exception text a handler appends for logger.exception', 'error path whose exception text quotes the URI, logged with logger.exception: the formatter appends the unmasked traceback line',
           'C15 quick: leak_log (traceback text)'),
 'C18_1': ('C18', ['C18'], '', 'as C18-1 (terminal emission moved out of the stop_evt guard in Filter.exit())', 'C18 quick: wrong_terminal in 127 runs'),
 'C18_2': ('C18', ['C18'], 'lineage backend now has a drawn emit latency (0-700 ms)', 'two cooperating edits: unlocked terminated-check in the heartbeat loop + flag set after the emit; run ends via fini() within the backend latency before a heartbeat is due',
           'C18 quick: event_after_terminal in 53 runs'),
}


# third round (same brief + "put at least one change outside zeromq.py / on the other side / in a helper or error path");
# delivered under /tmp/mut3_<id>
T3 = {
 'C01_1': ('C01', ['C01'], '', 'relay whose consumer asks for a newer id than the frame in hand (tee-rejoin, one branch returns None for id k while the other still processes k): the frame is re-labelled k+1 instead of discarded',
           'C01 quick: rejoin_roots in 143 runs'),
 'C01_2': ('C01', ['C01'], '', 'explicit topic list with >=2 topics; after a skipped id the source publishes an id with none of the subscribed topics: the per-source template loses a topic for good, later sets are handed over with one topic missing',
           'C01 quick: partial_set in 53 runs'),
 'C02_1': ('C02', ['C02'], '', 'raw image sent zero-copy from any *contiguous* buffer: a Fortran-ordered image goes out in memory order (mq.py, sender side)',
           'C02 quick: image_altered_on_send in 114 runs'),
 'C02_2': ('C02', ['C02'], '', 'named-topic subscription without its closing delimiter: a topic whose name merely STARTS with a subscribed name is delivered',
           'C02 quick: unsubscribed_delivered in 18 runs'),
 'C03_1': ('C03', ['C03'], '', 'a deferred result that turns out None uses up a message id (sender side): downstream waits for / skips an id',
           'C03 quick: sequence_mismatch / deferred_never in 102 runs'),
 'C03_2': ('C03', ['C03'], '', 'deferred result evaluating to {} treated like None (filter.py wrapper)',
           'C03 quick: sequence_mismatch / deferred_early in 290 runs'),
 'C04_1': ('C04', ['C04'], 'C04 generates relays with `sources_timeout` and bounds the publishers UPSTREAM of the stalled consumer\'s publisher too ("each publisher feeding it")',
           'relay configured with sources_timeout only: outputs_timeout is derived from it (copy/paste slip in Filter.init), the relay drops frames for a stalled consumer and keeps pulling from upstream',
           'C04 quick: unbounded_publish_upstream in 139 runs'),
 'C04_2': ('C04', ['C04'], 'C04 generates publishers bound on two addresses (not balancing) with synchronized consumers on different ones',
           'publisher with more than one bind address, not balancing, consumers on different addresses, one stalls: "everybody requested" evaluated per address',
           'C04 quick: unbounded_publish (997 frames in the window)'),
 'C05_2': ('C05', ['C04'], '', 'request uid per receiver instead of per connection (the twice-attached client-record clash again, from the receiver side)',
           'C04 quick: unbounded_publish in 39 runs; C05 quick: only the known twice-attached finding'),
 'C06_1': ('C06', ['C06'], '', 'stale connection of a *required* output never dropped: after the required consumer is restarted the publisher waits for the dead connection for ever',
           'C06 quick: no_progress in 289 runs'),
 'C06_2': ('C06', ['C06'], 'C06 profile gained ephemeral listeners, the eph_rejoin shape and late faults (ids far from their initial values)',
           'filter whose sources are all ephemeral, restarted while its synchronized consumer stays up: MQ.send drops the id jump of a discarded send, the new instance creeps up to the expected id one frame at a time (outage proportional to uptime)',
           'C06 quick: no_progress (1 run in ~500: rare at quick budgets)'),
 'C07_1': ('C07', ['C07'], 'C07 gained the balance-restart profile (graceful and hard restarts of workers / splitter / rejoin)',
           'a worker\'s request and its graceful CLOSE consumed by the splitter in one send(): the selected output has no client left and the frame is published on every branch',
           'C07 quick: multi_branch in 10 runs'),
 'C07_2': ('C07', ['C07'], 'the balanced rejoin may decimate through a deferred result that yields None',
           'sources_balance joiner with outputs and a callable-returning process() yielding None + a delayed older frame of a slower worker: stale lower id becomes the receive minimum',
           'C07 quick: order in 43 runs'),
 'C08_2': ('C08', ['C08'], '', 'exceptions of the OOB callback swallowed by the sender: an obeyed exit announced by a downstream neighbour is logged and ignored',
           'C08 quick: ended_unexpectedly / did_not_obey in 58 runs'),
 'C10_1': ('C10', ['C10'], '', 'read-only GRAY source: g.rgb.bgr / g.rgb.ro_bgr return the 2-D GRAY frame (source cached on the converted frame as the opposite conversion)',
           'C10 quick: stale_view in 107 histories'),
 'C10_2': ('C10', ['C10'], '', 'pickle / deepcopy of a read-only raw frame whose .jpg was read before: pixels replaced by decode(encode(pixels))',
           'C10 quick: stale_view (pickle) in 558 histories'),
 'C13_1': ('C13', ['C13'], 'text records now contain characters that str.splitlines() treats as boundaries (\\r, \\x0b, \\x85, U+2028, ...) and multi-byte characters',
           'txt mode, read_block(), a record containing \\r / \\x0b / \\x0c / \\x1c-\\x1e / \\x85 / U+2028: torn into several records',
           'C13 quick: torn in 14507 histories'),
 'C13_2': ('C13', ['C13'], '', 'external deletion of an older file + one prune that must remove >=2 files: FileNotFoundError aborts the prune loop, directory stays over total_size',
           'C13 quick: budget in 202 histories'),
 'C14_1': ('C14', ['C14'], '', 'constructor adopts a leftover <head>.tmp when the head file does not exist: kill during the very first save leaves an empty temp file that becomes the head',
           'C14 quick: corrupt_head in 10656 histories'),
 'C14_2': ('C14', ['C14'], '', 'tell() reports the past-the-end state as ("end", 0): saved and restored after the writer logged more, everything in between is skipped',
           'C14 quick: resume_position in 179 histories'),
 'C15_1': ('C15', ['C15'], 'C15 lets the main loop swallow the injected exception (loop_exc=False)',
           'loop_exc=False and an exception text quoting the URI: logger.exception appends the traceback whose last line is the raw str(exc) (patch rebased onto 28ac49b, the original is patch_orig.diff)',
           'C15 quick: leak_log in 54 runs'),
 'C15_2': ('C15', ['C15'], '', 'VideoReader unquotes its source before masking: %40 / %20 inside the password defeat the mask (log line and meta.src on the wire)',
           'C15 quick: leak_log / leak_wire in 335 runs'),
 'C18_1': ('C18', ['C18'], '', 'obeyed CLEAN exit of a neighbour passes exc=False instead of None: terminal is ABORT instead of COMPLETE',
           'C18 quick: wrong_terminal in 316 runs'),
 'C18_2': ('C18', ['C18'], 'lineage backend fault: the event is delivered but emit() raises (answer lost)',
           'client.emit() raises for the terminal event although the backend got it: the terminal flag is not set and a second terminal follows',
           'C18 quick: terminal_twice in 199 runs'),
}

# fourth round (MQ properties only; brief asks for rarely used options / API entry points / state kept across calls);
# delivered under /tmp/mut4_<id>. Seven of the sixteen deliveries re-invented changes that are already kept (see NOT_KEPT).
T4 = {
 'C01_2': ('C01', ['C01', 'C02'], 'graceful ("rolling") restarts that nobody obeys, so that the pipeline goes on after a CLOSE',
           'join (sink, keeps its own ids) of two independent sources, one restarted gracefully (CLOSE) while the other\'s current id is buffered: the reset meant for ephemeral sources now also resets the shared expected id, the new incarnation\'s id 0 is joined with the buffered id',
           'C01 quick: mixed_ids in 2 runs; C02 quick: duplicate_id_across_restart'),
 'C03_1': ('C03', ['C06'], '', 'publisher with >=2 required outputs, one of them leaves (CLOSE or time-out) while another keeps requesting: required outputs are only waited for once, the publisher carries on without it',
           'C06 quick: required_missing_publish in 13 runs (C03 is fault-free by its own preconditions and cannot see it)'),
 'C04_1': ('C04', ['C04'], '', 'one clock read per ZMQSender.send(): a consumer registered by a long blocking send is stamped with the call\'s entry time and pruned as timed out as soon as another consumer asks',
           'C04 quick: unbounded_publish in 2 runs'),
 'C04_2': ('C04', ['C04'], '', 'relay with sources_timeout and no outputs_timeout: the output wait uses the leftover of the input wait, frames for a stalled consumer are dropped and upstream keeps publishing',
           'C04 quick: unbounded_publish_upstream in 71 runs'),
 'C05_2': ('C05', ['C05'], '', 'join of a synchronized source with a multi-topic ephemeral source, the synchronized set completing between two topics of the ephemeral one: half sets are delivered',
           'C05 quick: ephemeral_incomplete'),
 'C06_1': ('C06', ['C06'], '', 'outputs_balance + handshake: a restarted / late worker never gets its HELLO when a frame goes out in the same send(), stays "new" for ever and is starved',
           'C06 quick: no_progress in 4 runs'),
 'C07_2': ('C07', ['C07'], '', 'prev_id only recorded when recv() got no state: a rejoin that does not forward one frame (process() returned None) forgets what it has taken and accepts a late older frame',
           'C07 quick: order in 61 runs'),
 'C08_1': ('C08', ['C08'], 'C08 gives exit_after filters an outputs_timeout and consumers that have stopped asking',
           'outputs_timeout + exit_after + sends that time out: `return` instead of `break` skips the exit_after check, the filter never ends',
           'C08 quick: did_not_end in 63 runs'),
 'C08_2': ('C08', ['C08'], 'C08 gained the send-side oracle announcement_not_sent (every ending filter puts its announcement on each of its channels, connected or not)',
           'exit announcement pushed only to sources already heard from: a filter that ends before its first message (setup failure, stop during warm-up) announces nothing upstream',
           'C08 quick: announcement_not_sent in 99 runs'),
}

NOT_KEPT = """
Not kept: a first C01 change of round 1 (MQ.send clearing send_state before the send is known to have gone out; caught by
C01 rejoin_roots) deterministically fails the existing test tests/test_filter.py::TestFilterOld::test_topo_balance_step.
C05-r3-1 ('?' listener gates its endpoint of a load-balancing publisher) only manifests with a '?' tap on an
`outputs_balance` publisher, which the documentation rules out ("no ephemeral channels within the balanced section",
"don't plug into something that is load balancing outputs"); the generators do not produce that configuration, no check
catches it, and it is not counted.
C08-r3-1 (Filter.exit() dedupes on a private flag and no longer sets the stop event) was missed at first, made the C08
generator give loop_exc=False to the neighbours of the failing filter, was then caught - and so was a genuine defect of
the unchanged tree on the same path (an obeyed error exit swallowed by loop_exc=False). With that defect repaired
(28ac49b) the seeded change no longer breaks the property (its own demonstration passes on the repaired tree with the
change applied), so it is not kept either.
Round 4: seven deliveries re-invented changes that are already kept and are not added a second time - C01-1 (template
aliasing in new_recv = C01-r3-2), C02-1 (Fortran image zero-copy = C02-r3-1), C02-2 and C07-1 (MQ.send keeps recv_state
when the deferred result was None = C07-r3-2; with the round-4 generators C02 catches it too), C05-1 (uid per receiver =
C05-r3-2), C06-2 (MQ.send drops the id jump of a discarded send = C06-r3-2). C03-r4-2 (mq_msgid_sync=False honoured in
one direction only) needs mq_msgid_sync=False together with a process({}) that emits tick frames under sources_timeout:
both are configurations the generators leave out (DESIGN.md 10), no check catches it, it is not counted.
"""


def _tests(path):
    tests = {}
    if path and os.path.exists(path):
        for line in open(path):
            m = re.match(r'(C\d\d_\d) (.*)', line.strip())
            if m:
                tests[m.group(1)] = m.group(2)
    return tests


def _round(table, prefix, sid_of, tests, rows):
    for mid, (prop, caught, strengthened, needs, reported) in sorted(table.items()):
        src = prefix + mid
        sid = sid_of(mid, prop)
        dst = os.path.join(HERE, 'seeded', sid)
        mpath = os.path.join(dst, 'meta.json')
        if os.path.exists(mpath) and mid not in tests:
            meta = json.load(open(mpath))          # keep what was recorded when the change was confirmed
        else:
            os.makedirs(dst, exist_ok=True)
            for f in ('patch.diff', 'patch_orig.diff', 'demo.py', 'notes.md'):
                if os.path.exists(os.path.join(src, f)):
                    shutil.copy(os.path.join(src, f), os.path.join(dst, f))
            meta = {'id': sid, 'breaks_property': prop, 'needs_to_manifest': needs,
                    'what_was_run': {'demo': 'demo.py exits 1 with patch.diff applied and 0 without (own confirmation in a scratch copy)',
                                     'existing_tests_with_patch': tests.get(mid, 'see notes.md (sub-agent run); own confirmation pending'),
                                     'checks': reported},
                    'caught_by_checks': caught, 'check_strengthened': strengthened or None}
            json.dump(meta, open(mpath, 'w'), indent=1)
        rows.append((sid, meta['breaks_property'], ', '.join(meta['caught_by_checks']), meta.get('check_strengthened') or '-',
                     meta['what_was_run']['checks']))


def main():
    """args: [tests-log round 1] [tests-log round 2] [tests-log round 3] [tests-log round 4]; a change whose meta.json exists and that has no
    line in the given log keeps its recorded meta.json."""
    a = sys.argv[1:] + [None] * 4
    rows = []
    _round(T, '/tmp/mut_', lambda mid, prop: mid.replace('_', '-'), _tests(a[0]), rows)
    _round(T2, '/tmp/mut2_', lambda mid, prop: f'{prop}-r2-{mid[-1]}' if mid.startswith(prop) else f'{mid[:3]}-r2-{mid[-1]}',
           _tests(a[1]), rows)
    _round(T3, '/tmp/mut3_', lambda mid, prop: f'{mid[:3]}-r3-{mid[-1]}', _tests(a[2]), rows)
    _round(T4, '/tmp/mut4_', lambda mid, prop: f'{mid[:3]}-r4-{mid[-1]}', _tests(a[3]), rows)
    with open(os.path.join(HERE, 'seeded', 'INDEX.md'), 'w') as f:
        f.write('# Seeded changes (independent sub-agents: property text + scratch worktree only)\n\n')
        f.write('Each directory holds patch.diff, demo.py (fails with the change, passes without), notes.md (the author\'s) and '
                'meta.json. Run one against the checks with `./tools_seeded.sh seeded/<id> <PROP>` (scratch copy, /repo untouched); '
                '`./tools_seeded_regress.sh` re-runs all of them.\n\n')
        f.write('| id | breaks | caught by | check strengthened because of it | what the check reports |\n|---|---|---|---|---|\n')
        for r in rows:
            f.write('| ' + ' | '.join(r) + ' |\n')
        f.write(f'\n{len(rows)} kept, {sum(1 for r in rows if r[2])} caught by at least one check.\n')
        f.write(NOT_KEPT)
    print(len(rows), 'seeded changes indexed')


if __name__ == '__main__':
    main()
