"""usage: tools_keep_seeded.py <src dir> <id> <property> <caught_by csv or ''> <needs text> <ran text>"""
import json, os, shutil, sys
src, sid, prop, caught, needs, ran = sys.argv[1:7]
dst = os.path.join(os.path.dirname(os.path.abspath(__file__)), 'seeded', sid)
os.makedirs(dst, exist_ok=True)
for f in ('patch.diff', 'demo.py', 'notes.md'):
    if os.path.exists(os.path.join(src, f)):
        shutil.copy(os.path.join(src, f), os.path.join(dst, f))
json.dump({'id': sid, 'breaks_property': prop, 'needs_to_manifest': needs, 'what_was_run': ran,
           'caught_by_checks': [c for c in caught.split(',') if c]}, open(os.path.join(dst, 'meta.json'), 'w'), indent=1)
print('kept', dst)
